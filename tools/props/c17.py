"""C17: the command line produces the library's result under every flag combination.

Level "other": a Coq model of the decision logic (tables generated from __main__.py, theorems in props/C17.v)
plus differential runs of the REAL command line.

  search         `python -m pymwp FILE FLAGS` (subprocess, scratch cwd) over combinations of --mode F/L/f/l, --fin,
                 --strict, --no_save, --out, --no_cpp, --silent/--info on generated preprocessed files and files from
                 /repo/c_files: exit status 0; files created = exactly the expected output file (none with --no_save);
                 its JSON (start_time/end_time removed at every level) = Analysis.run / LoopAnalysis.run(...).to_dict()
                 computed in this process from the documented options on the same file parsed the same way; cpp on/off
                 give the same JSON on directive-free, comment-free files.
  correspondence (1) pymwp.__main__.main() run in this process on generated command lines (all 640 flag shapes + rich random
                 ones: repeated / unknown / value-less options, bad choices, --version ...) with Parser.parse,
                 Analysis.run, LoopAnalysis.run, save_result, loc, __setup_logger replaced by recorders; the recorded
                 calls / exit status are compared with `main_model` inside Coq;
                 (2) PyCParser.parse with pycparser.parse_file replaced by a recorder: text of the temporary file and
                 keyword arguments vs `parse_prep`; (3) add_attr_x, text.split/join, default_file_out vs the model.
"""
import contextlib
import io
import itertools
import json
import os
import shutil
import subprocess
import sys
import tempfile
from concurrent.futures import ThreadPoolExecutor

import vlib

sys.path.insert(0, os.path.dirname(os.path.dirname(os.path.abspath(__file__))))
import gen_prog  # noqa: E402

ID = "C17"
LEVEL = "other"
TRANSLATORS = ["cli"]
MODEL_TARGETS = ["theories/Cli.vo"]
LEVEL_TEXT = ("Partial proof + differential runs. Proved in Coq (closed, no axioms): for all 640 flag shapes (mode absent/F/L/f/l x "
              "fin, strict, no_save, out, no_cpp, silent, info), every non-empty input path and every --out string, the model of "
              "__parse_args + main() -- an interpreter of the option table and plumbing table regenerated from __main__.py on each run -- "
              "calls the analysis class, fin, strict of the flags, installs the saving emitter iff --no_save is absent with path --out or "
              "default_file_out(input), and parses/records the input file; with --no_cpp the text handed to pycparser is the file text; "
              "with cpp the define is prepended exactly when no line starts with it (idempotent); cpp on/off read the same tokens under an "
              "explicit hypothesis on gcc -E. Checked, not proved: the real process (exit status, files created, JSON equality with "
              "Analysis.run/LoopAnalysis.run, cpp on/off equality) by differential runs of `python -m pymwp`; argparse itself by "
              "in-process comparison of main() with the model on generated command lines.")
LEVEL_NOTE = ("Trusted: Coq kernel; the cli translator (validated by the in-process comparison of the real main() with the model); the "
              "hypothesis about gcc -E named in trusted_base; CPython/argparse/json/file system are exercised, not modelled beyond "
              "the argparse features __parse_args uses. No axioms.")
TECHNIQUE = "Coq proof by computation over translator-generated tables (finite flag space, symbolic strings) + differential CLI subprocess runs + in-process call recording compared inside Coq"
EXPLANATION = ("Decision logic of main() proved against tables regenerated from the source; the real command line is run on every "
               "check over flag combinations x files and compared with the library called directly; main() is also run in-process "
               "with recorders and compared with the Coq model on all 640 flag shapes and random rich command lines.")
ASSUMPTIONS = ["the cli translator reads __parse_args / main() / PyCParser.parse / add_attr_x / default_file_out faithfully (validated on every run by the in-process comparisons)",
               "argparse behaves as modelled for exact option strings (store, store_true, version, help, choices, type=str.upper, optional positional); prefixes, --opt=value, values starting with '-' are outside the model",
               "C17_cpp_irrelevant is conditional on the stated hypothesis about the external preprocessor; the differential runs test it on generated and corpus files"]
TRUSTED_EXTRA = [
    "HYPOTHESIS of C17_cpp_irrelevant (explicit premise of the theorem, not an axiom): for a text with no line whose first non-blank "
    "character is '#', no '//' or '/*', no occurrence of '__attribute__' and no identifier that the preprocessor predefines as a macro, "
    "`gcc -E` applied to '#define __attribute__(x)' + newline + text yields (after pycparser's lexer consumed the line markers) the same "
    "token sequence as the text itself",
    "gcc (cpp), the file system, json, argparse, subprocess: exercised by the differential runs, not modelled",
]

PY = vlib.PY
TIMEOUT = 60
MINIMAL = "int f(int x, int y)\n{\n  x = x + y;\n}\n"

# corpus files (relative to REPO/c_files): (path, has comments)
CORPUS_QUICK = ["infinite/infinite_2.c", "not_infinite/notinfinite_2.c", "implementation_paper/example14.c", "other/xnu_simple.c"]
CORPUS_THOROUGH = CORPUS_QUICK + ["infinite/infinite_3.c", "not_infinite/notinfinite_3.c", "tool_paper/t19_c4b.c", "tool_paper/t47_c4b.c",
                                  "other/simplified_dense.c", "other/gcd.c", "original_paper/example3_2.c", "basics/while_if.c",
                                  "tool_paper/tool_ex_2.c", "original_paper/example3_1_d.c"]


# ---------------------------------------------------------------------------------------------------
# helpers
# ---------------------------------------------------------------------------------------------------

def strip_times(d):
    if isinstance(d, dict):
        return {k: strip_times(v) for k, v in d.items() if k not in ("start_time", "end_time")}
    if isinstance(d, list):
        return [strip_times(x) for x in d]
    return d


def is_preprocessed(text):
    """no directive and no comment; comment markers INSIDE string / character literals are text, not comments"""
    import re
    bare = re.sub(r'"(\\.|[^"\\\n])*"|\'(\\.|[^\'\\\n])*\'', '""', text)
    return not any(l.lstrip().startswith("#") for l in text.split("\n")) and "//" not in bare and "/*" not in bare


def sub_env():
    e = {k: v for k, v in os.environ.items() if k not in ("PYTHONPATH", "PYTHONSTARTUP", "PYTHONHOME")}
    e["PYTHONPATH"] = vlib.REPO
    e["PYTHONDONTWRITEBYTECODE"] = "1"
    return e


def flags_argv(fl):
    """canonical flag words of a flag dict (the file is placed by the job)"""
    a = []
    if fl.get("mode") is not None:
        a += ["--mode", fl["mode"]]
    for k in ("fin", "strict", "no_save"):
        if fl.get(k):
            a.append("--" + k)
    if fl.get("out") is not None:
        a += ["--out", fl["out"]]
    if fl.get("no_cpp"):
        a.append("--no_cpp")
    if fl.get("log"):
        a.append("--" + fl["log"])
    return a


def mk_job(name, text, relpath, flags, absolute=False, file_last=False):
    return {"name": name, "text": text, "relpath": relpath, "flags": dict(flags), "absolute": absolute, "file_last": file_last}


def job_argv(job, cwd):
    f = os.path.join(cwd, job["relpath"]) if job["absolute"] else job["relpath"]
    a = flags_argv(job["flags"])
    return (a + [f]) if job["file_last"] else ([f] + a), f


def run_cli(job, root, idx):
    """Run the real command line for one job in its own scratch directory. Returns a dict."""
    cwd = os.path.join(root, f"j{idx}")
    src = os.path.join(cwd, job["relpath"])
    os.makedirs(os.path.dirname(src), exist_ok=True)
    with open(src, "w") as fh:
        fh.write(job["text"])
    argv, farg = job_argv(job, cwd)
    try:
        p = subprocess.run([PY, "-m", "pymwp"] + argv, cwd=cwd, env=sub_env(), stdout=subprocess.PIPE, stderr=subprocess.PIPE,
                           text=True, timeout=TIMEOUT)
        rc, out, err = p.returncode, p.stdout, p.stderr
    except subprocess.TimeoutExpired:
        rc, out, err = 124, "", f"[timeout after {TIMEOUT}s]"
    created = []
    for dp, _, fs in os.walk(cwd):
        for f in fs:
            q = os.path.join(dp, f)
            if os.path.realpath(q) != os.path.realpath(src):
                created.append(os.path.relpath(q, cwd))
    dirs = [os.path.relpath(os.path.join(dp, x), cwd) for dp, ds, _ in os.walk(cwd) for x in ds]
    dirs = [x for x in dirs if not (src + os.sep).startswith(os.path.join(cwd, x) + os.sep)]
    return {"cwd": cwd, "src": src, "argv": argv, "file_arg": farg, "rc": rc, "stdout": out, "stderr": err,
            "created": sorted(created), "dirs": sorted(dirs)}


class Lib:
    """The library called directly with the documented options (the oracle of the search)."""

    def __init__(self):
        vlib.import_pymwp()
        import pymwp
        from pymwp import file_io
        self.P, self.io = pymwp, file_io
        self.cache = {}

    def result(self, path, text, mode, fin, strict, use_cpp):
        key = (text, mode, fin, strict, use_cpp)
        if key not in self.cache:
            self.cache[key] = self._run(path, mode, fin, strict, use_cpp)
        return self.cache[key]

    def _run(self, path, mode, fin, strict, use_cpp):
        """The tree is obtained from pycparser directly, NOT through pymwp's Parser.parse (whose plumbing is under test):
        a directive-free, comment-free text is parsed as it is (whatever use_cpp: the outcome must not depend on it),
        any other file through `gcc -E` with the fake libc headers."""
        P = self.P
        import pycparser
        from pycparser_fake_libc import directory as fake_libc
        try:
            with open(path) as fh:
                text = fh.read()
            if is_preprocessed(text):
                ast = pycparser.c_parser.CParser().parse(text, filename=path)
            elif use_cpp:
                ast = pycparser.parse_file(path, use_cpp=True, cpp_path="gcc", cpp_args=["-E", "-I" + fake_libc])
            else:
                return ("raise", ["not-preprocessed-without-cpp", None])
            res = P.Result()
            res.program.n_lines = self.io.loc(path)
            an = P.LoopAnalysis if mode == "L" else P.Analysis
            r = an.run(ast, res, fin=fin, strict=strict)
            return ("ok", strip_times(r.to_dict()))
        except Exception as e:   # a raise of the library is C06's business; recorded, not a C17 failure
            return ("raise", vlib.exc_sig(e))


def expected_out(job, file_arg):
    """relative path of the file the run must create (None: nothing). Inputs are always named [dir/]<name>.c"""
    fl = job["flags"]
    if fl.get("no_save"):
        return None
    if fl.get("out"):
        return fl["out"]
    return os.path.join("output", job["name"] + ".json")


def last_exc(err):
    ls = [l for l in err.strip().split("\n") if l.strip()]
    if not ls:
        return ""
    t = ls[-1].split(":")[0].strip()
    return t.split(".")[-1][:40]


def evaluate(job, res, lib):
    """Compare one CLI run with the library. Returns (list of failure dicts, info)."""
    fl = job["flags"]
    mode = (fl.get("mode") or "F").upper()
    use_cpp = not fl.get("no_cpp")
    kind, want = lib.result(res["src"], job["text"], mode, bool(fl.get("fin")), bool(fl.get("strict")), use_cpp)
    info = {"lib": kind, "json": None, "silent_noise": False}
    fails = []
    inp = {"kind": "cli", "job": {k: job[k] for k in ("name", "text", "relpath", "flags", "absolute", "file_last")},
           "argv": [a if a != res["file_arg"] else job["relpath"] for a in res["argv"]]}

    def fail(k, detail, what, exp, obs):
        fails.append({"what": f"{k}: {what}", "sig": ["C17", k, detail], "input": inp, "expected": exp, "observed": obs})

    if kind == "raise":
        info["lib_raise"] = want
        if res["rc"] == 0:
            fail("exit-status", "library-raises", "the command line exits 0 although the library call raises", want, 0)
        return fails, info
    if res["rc"] != 0:
        fail("exit-status", last_exc(res["stderr"]), f"exit status {res['rc']} ({res['stderr'].strip().splitlines()[-1][:160] if res['stderr'].strip() else ''})",
             0, res["rc"])
        return fails, info
    exp = expected_out(job, res["file_arg"])
    expset = [] if exp is None else [os.path.normpath(os.path.relpath(os.path.join(res["cwd"], exp), res["cwd"]))]
    got = [os.path.normpath(x) for x in res["created"]]
    if got != expset:
        if exp is None:
            fail("file-presence", "written-with-no_save", f"files written although --no_save: {got}", [], got)
        elif not got:
            fail("file-presence", "missing", f"no output file written (expected {exp})", expset, got)
        else:
            fail("file-presence", "wrong-path", f"output written to {got}, expected {expset}", expset, got)
        return fails, info
    if exp is None:
        if res["dirs"]:
            fail("file-presence", "dir-with-no_save", f"directories created although --no_save: {res['dirs']}", [], res["dirs"])
        return fails, info
    try:
        with open(os.path.join(res["cwd"], exp)) as fh:
            data = json.load(fh)
    except Exception as e:
        fail("json", "unreadable", f"output file is not JSON: {e}", "JSON", str(e)[:200])
        return fails, info
    pp = (data.get("program") or {}).get("program_path")
    if pp != res["file_arg"]:
        fail("json", "program_path", "program_path is not the input file argument", job["relpath"], pp)
    st = data.get("start_time"), data.get("end_time")
    if not (isinstance(st[0], int) and isinstance(st[1], int) and 0 < st[0] <= st[1]):
        fail("json", "times", "final file does not carry start_time <= end_time of a finished analysis", "0 < start <= end", list(st))
    got_j = strip_times(data)
    want_j = json.loads(json.dumps(want))
    want_j.setdefault("program", {})["program_path"] = res["file_arg"]
    info["json"] = got_j
    if got_j != want_j:
        keys = sorted(set(got_j) ^ set(want_j)) or [k for k in got_j if got_j[k] != want_j.get(k)]
        fail("json-differs", ",".join(keys)[:60], f"saved JSON differs from {'LoopAnalysis' if mode == 'L' else 'Analysis'}.run(fin={bool(fl.get('fin'))}, "
             f"strict={bool(fl.get('strict'))}).to_dict() at {keys}", want_j, got_j)
    if fl.get("log") == "silent" and (res["stdout"].strip() or res["stderr"].strip()):
        info["silent_noise"] = True
    return fails, info


def run_jobs(jobs, root, lib, start=0):
    with ThreadPoolExecutor(max_workers=16) as ex:
        futs = [ex.submit(run_cli, j, root, start + i) for i, j in enumerate(jobs)]
        # the oracle is computed here while the subprocesses run
        for i, j in enumerate(jobs):
            fl = j["flags"]
            p = os.path.join(root, f"lib_{j['name']}.c")
            if not os.path.exists(p):
                with open(p, "w") as fh:
                    fh.write(j["text"])
            lib.result(p, j["text"], (fl.get("mode") or "F").upper(), bool(fl.get("fin")), bool(fl.get("strict")), not fl.get("no_cpp"))
        return [f.result() for f in futs]


def check_one(job, lib, root=None):
    d = root or tempfile.mkdtemp()
    try:
        res = run_cli(job, d, 0)
        return evaluate(job, res, lib)
    finally:
        if root is None:
            shutil.rmtree(d, ignore_errors=True)


def shrink(job, sig, lib):
    """Greedy: drop flags one at a time, then try the minimal file, keeping the same failure signature."""
    def still(j):
        fs, _ = check_one(j, lib)
        return next((f for f in fs if f["sig"][:2] == sig[:2]), None)
    cur = json.loads(json.dumps(job))
    best = None
    for k in list(cur["flags"].keys()):
        if cur["flags"].get(k) in (None, False):
            continue
        t = json.loads(json.dumps(cur))
        t["flags"][k] = None if k in ("mode", "out", "log") else False
        f = still(t)
        if f:
            cur, best = t, f
    for alt in ({"absolute": False}, {"file_last": False}, {"relpath": cur["name"] + ".c"}, {"text": MINIMAL}):
        t = json.loads(json.dumps(cur))
        t.update(alt)
        if t == cur:
            continue
        f = still(t)
        if f:
            cur, best = t, f
    return best


# ---------------------------------------------------------------------------------------------------
# files and flag combinations
# ---------------------------------------------------------------------------------------------------

def gen_file(rng, k, edge):
    cfg = gen_prog.Cfg(nvars=rng.choice([2, 3, 3, 4]), max_sites=4, max_depth=2, max_stmts=4, sugar=False)
    txt, _, vars_ = gen_prog.gen_function(rng, cfg, fname="f")
    if rng.random() < 0.5:
        t2, _, _ = gen_prog.gen_function(rng, gen_prog.Cfg(nvars=2, max_sites=3, max_depth=1, max_stmts=3, sugar=False), fname="g")
        txt += t2
    if edge:
        # a loop whose body holds a statement outside the analysed syntax (strict matters in both modes) and an
        # exponential loop (fin matters)
        a, b, c = rng.sample(["x", "y", "z", "u"], 3)
        txt += (f"int h(int {a}, int {b}, int {c})\n{{\n  while ({a} > 0)\n  {{\n    {b} = foo({c});\n    {a} = {a} + {c};\n  }}\n"
                f"  while ({c} > 0)\n  {{\n    {b} = {b} * {b};\n    {a} = {b} + {a};\n  }}\n}}\n")
    if k % 3 == 1:
        # comment markers inside string literals are not comments: the preprocessor leaves them alone, and so must --no_cpp
        a, b = rng.sample(["x", "y", "z"], 2)
        lits = rng.sample(['"a /* b"', '"c */ d"', '"// e"', '"/*"', '"*/"', '"http://h"'], 3)
        txt += (f"int s(int {a}, int {b})\n{{\n  {a} = {lits[0]}; {b} = {a} + {b}; {a} = {lits[1]};\n  {b} = {b} * {a};\n  {a} = {lits[2]};\n}}\n")
    assert is_preprocessed(txt)
    return f"g{k}", txt


def file_pool(ctx, rng):
    ngen = ctx.n(4, 12)
    pool = []
    for k in range(ngen):
        name, txt = gen_file(rng, k, edge=(k % 2 == 0))
        if k % 4 == 2:
            name += ".v2"          # more than one dot in the base name: the default output is named after everything before the LAST dot
        pool.append((name, txt, "generated"))
    # a translation unit without any function definition: the run still succeeds and saves the (statistics-only) result
    pool.append(("nofunc", "int glob = 3;\ntypedef int T;\nint proto(int x);\n", "generated"))
    # names a preprocessor would only touch if somebody defined them: true / false / bool used as plain identifiers
    pool.append(("boolnames", "int f(int x, int flag, int bool)\n{\n  flag = true;\n  while (true)\n  {\n    x = x + flag;\n    flag = false;\n  }\n  bool = x * flag;\n}\n", "generated"))
    for rel in (CORPUS_THOROUGH if ctx.thorough else CORPUS_QUICK):
        p = os.path.join(vlib.REPO, "c_files", rel)
        with open(p) as fh:
            txt = fh.read()
        pool.append((os.path.basename(rel)[:-2], txt, "corpus"))
    return pool


BITS = ("fin", "strict", "no_save", "out", "no_cpp")


def all_flag_dicts():
    for mode in ("F", "L"):
        for bits in itertools.product((False, True), repeat=len(BITS)):
            for log in (None, "silent", "info"):
                d = {"mode": mode, "log": log}
                d.update(dict(zip(BITS, bits)))
                d["out"] = "res/out.json" if d["out"] else None
                yield d


def quick_bases(rng, n=4):
    """n >= 4 flag dicts (without the no_cpp bit): loop and function mode, both values of fin and of strict on saving runs,
    at most one --no_save run; the rest random."""
    bs = []
    for k in range(n):
        bs.append({"mode": rng.choice(["L", "l"]) if k % 2 == 0 else rng.choice([None, "F", "f"]),
                   "fin": rng.random() < 0.5, "strict": rng.random() < 0.5, "no_save": False,
                   "out": (None, "o.json", "res/deep/out.json", None)[k % 4] if n <= 4 else rng.choice([None, None, "o.json", "res/deep/out.json"]),
                   "log": rng.choice([None, "silent", "info"])})
    bs[0]["fin"], bs[1]["fin"], bs[2]["fin"], bs[3]["fin"] = True, True, False, False
    bs[0]["strict"], bs[1]["strict"], bs[2]["strict"], bs[3]["strict"] = False, True, True, False
    bs[rng.randrange(n)]["no_save"] = rng.random() < 0.6
    return bs


def build_jobs(ctx, rng, pool):
    jobs = []
    if ctx.thorough:
        for name, txt, _ in pool:
            pre = is_preprocessed(txt)
            for k, d in enumerate(all_flag_dicts()):
                if d["no_cpp"] and not pre:
                    continue
                if d["out"]:     # vary the shape of the output path: nested relative, bare file name, deeper
                    d["out"] = ("res/out.json", "o.json", "res/deep/o2.json")[k % 3]
                if k % 7 == 3:
                    d["mode"] = d["mode"].lower()
                if k % 11 == 5 and d["mode"] == "F":
                    d["mode"] = None
                rel = f"src/{name}.c" if k % 5 == 1 else (f"s.rc/d.1/{name}.c" if k % 5 == 3 else f"{name}.c")
                jobs.append(mk_job(name, txt, rel, d, absolute=(k % 13 == 2), file_last=(k % 17 == 4)))
    else:
        per = 4
        for name, txt, _ in pool:
            pre = is_preprocessed(txt)
            for k, b in enumerate(quick_bases(rng, per)):
                rel = rng.choice([f"src/{name}.c", f"s.rc/d.1/{name}.c"]) if rng.random() < 0.3 else f"{name}.c"
                ab, fl_ = rng.random() < 0.15, rng.random() < 0.15
                for nc in ((False, True) if pre else (False,)):
                    d = dict(b)
                    d["no_cpp"] = nc
                    jobs.append(mk_job(name, txt, rel, d, absolute=ab, file_last=fl_))
    return jobs


def search(ctx, rng, root, failing, stats):
    lib = Lib()
    pool = file_pool(ctx, rng)
    jobs = build_jobs(ctx, rng, pool)
    results = run_jobs(jobs, root, lib)
    seen = set()
    nontriv = set()
    dist = {"runs": len(jobs), "files": len(pool), "generated_files": sum(1 for p in pool if p[2] == "generated"),
            "corpus_files": sum(1 for p in pool if p[2] == "corpus"), "json_compared": 0, "no_save_runs": 0, "library_raises": 0,
            "silent_runs_with_output": 0, "timeouts": 0, "cpp_pairs_compared": 0, "exit_nonzero": 0}
    cov = {}
    by_pair = {}
    for job, res in zip(jobs, results):
        fl = job["flags"]
        for k, v in fl.items():
            cov.setdefault(k, {}).setdefault(str(v), 0)
            cov[k][str(v)] += 1
        fs, info = evaluate(job, res, lib)
        dist["library_raises"] += info["lib"] == "raise"
        dist["no_save_runs"] += bool(fl.get("no_save"))
        dist["silent_runs_with_output"] += info["silent_noise"]
        dist["timeouts"] += res["rc"] == 124
        dist["exit_nonzero"] += res["rc"] != 0
        if info["json"] is not None:
            dist["json_compared"] += 1
            nontriv.add((job["name"], json.dumps(fl, sort_keys=True)))
            key = (job["name"], job["relpath"], job["absolute"], job["file_last"],
                   json.dumps({k: v for k, v in fl.items() if k != "no_cpp"}, sort_keys=True))
            by_pair.setdefault(key, {})[bool(fl.get("no_cpp"))] = (job, res, info["json"])
        for f in fs:
            key = tuple(f["sig"])
            if key in seen:
                continue
            seen.add(key)
            small = shrink(job, f["sig"], lib) if len(seen) <= 4 else None
            if small:
                small["shrunk_from"] = {"argv": f["input"]["argv"], "file": job["name"]}
                f = small
            failing.append(f)
        if len(stats["samples"]) < 3 and info["json"] is not None and fl.get("mode") and (fl.get("fin") or fl.get("strict")):
            stats["samples"].append({"argv": ["<file>" if a == res["file_arg"] else a for a in res["argv"]], "file": job["name"],
                                     "exit": res["rc"], "created": res["created"],
                                     "json_keys": sorted(info["json"].keys())})
    # cpp on / off on preprocessed files
    for key, d in by_pair.items():
        if True in d and False in d:
            dist["cpp_pairs_compared"] += 1
            a, b = (json.loads(json.dumps(d[k][2])) for k in (False, True))
            for x in (a, b):      # each run has its own scratch directory: absolute input paths differ
                x.get("program", {}).pop("program_path", None)
            if a != b and ("cpp-dependence",) not in seen:
                seen.add(("cpp-dependence",))
                job = d[True][0]
                failing.append({"what": "cpp-dependence: the saved JSON of a directive-free, comment-free file differs with and without --no_cpp",
                                "sig": ["C17", "cpp-dependence", ""],
                                "input": {"kind": "cli-pair", "job": {k: job[k] for k in ("name", "text", "relpath", "flags", "absolute", "file_last")}},
                                "expected": a, "observed": b})
    # does the pool let fin / strict / mode make a difference at all?  (a pool on which they cannot would hide a swap)
    sens = {"fin_F": 0, "strict_F": 0, "strict_L": 0, "mode": 0}
    for name, txt, _ in pool:
        p = os.path.join(root, f"lib_{name}.c")
        if not os.path.exists(p):
            with open(p, "w") as fh:
                fh.write(txt)
        r = {(m, f, s): lib.result(p, txt, m, f, s, True) for m in "FL" for f in (False, True) for s in (False, True)}
        sens["fin_F"] += r[("F", False, False)] != r[("F", True, False)]
        sens["strict_F"] += r[("F", False, False)] != r[("F", False, True)]
        sens["strict_L"] += r[("L", False, False)] != r[("L", False, True)]
        sens["mode"] += r[("F", False, False)] != r[("L", False, False)]
    dist["files_where_option_changes_library_result"] = sens
    stats["search"] = dist
    stats["flag_values_covered"] = cov
    stats["evaluations"] += len(jobs)
    degenerate = [k for k, v in sens.items() if v == 0]
    return nontriv, degenerate


# ---------------------------------------------------------------------------------------------------
# correspondence 1: main() in-process with recorders vs main_model
# ---------------------------------------------------------------------------------------------------

def q(s):
    assert all(32 <= ord(c) < 127 or c in "\n\t" for c in s), repr(s)
    return vlib.cq_str(s)


def qval(v):
    if v is None:
        return "VNone"
    if isinstance(v, bool):
        return f"(VBool {vlib.cq_bool(v)})"
    if isinstance(v, str):
        return f"(VStr {q(v)})"
    if isinstance(v, (list, tuple)) and all(isinstance(x, str) for x in v):
        return f"(VList {vlib.cq_list([q(x) for x in v])})"
    raise ValueError(f"value outside the model: {v!r}")


def qkw(items):
    return vlib.cq_list([f"({q(k)}, {qval(v)})" for k, v in items])


def qcmd(pos, opts):
    return ("(mk_cmd " + vlib.cq_list([q(p) for p in pos]) + " "
            + vlib.cq_list([f"({q(o)}, {vlib.cq_opt(v, q)})" for o, v in opts]) + ")")


def cmd_argv(pos, opts):
    a = list(pos)
    for o, v in opts:
        a.append(o)
        if v is not None:
            a.append(v)
    return a


class MainHarness:
    def __init__(self):
        vlib.import_pymwp()
        import pymwp
        import pymwp.__main__ as M
        import pymwp.analysis as A
        self.M, self.A, self.pymwp = M, A, pymwp
        self.PC = type(M.Parser)

    def observe(self, argv):
        """Run the real main() on argv with every callee replaced by a recorder. Returns a Coq outcome literal + raw record."""
        M, A = self.M, self.A
        rec = {"saves": []}
        AST = object()

        def parse_stub(file_name, headers=None, **kw):
            rec["parse"] = (file_name, headers, list(kw.items()))
            return AST

        def mk_run(name):
            def run(ast, res=None, **kw):
                rec["run"] = {"cls": name, "kw": list(kw.items()), "ast_ok": ast is AST,
                              "program_path": res.program.program_path, "color": res.color,
                              "emitter": res._on_emit is not None}
                rec["res"] = res
                res.on_emit()       # the real run() emits once at the start
                return res
            return staticmethod(run)

        def save_stub(file_name, result):
            rec["saves"].append((file_name, result is rec.get("res")))

        def loc_stub(f):
            rec["loc"] = f
            return 0

        def logger_stub(level=None, log_filename=None, hide_time=False):
            rec["logger"] = (level, log_filename, hide_time)

        saved = {"parse": self.PC.__dict__["parse"], "arun": A.Analysis.__dict__["run"], "lrun": A.LoopAnalysis.__dict__["run"],
                 "save": M.save_result, "loc": M.loc, "log": getattr(M, "__setup_logger"), "argv": sys.argv}
        out = None
        try:
            self.PC.parse = staticmethod(parse_stub)
            A.Analysis.run = mk_run("Analysis")
            A.LoopAnalysis.run = mk_run("LoopAnalysis")
            M.save_result, M.loc = save_stub, loc_stub
            setattr(M, "__setup_logger", logger_stub)
            sys.argv = ["pymwp"] + list(argv)
            with contextlib.redirect_stdout(io.StringIO()), contextlib.redirect_stderr(io.StringIO()):
                try:
                    M.main()
                    out = "run"
                except SystemExit as e:
                    out = ("exit", 0 if e.code is None else e.code)
                except Exception as e:
                    out = ("crash", type(e).__name__)
        finally:
            self.PC.parse = saved["parse"]
            A.Analysis.run = saved["arun"]
            A.LoopAnalysis.run = saved["lrun"]
            M.save_result, M.loc = saved["save"], saved["loc"]
            setattr(M, "__setup_logger", saved["log"])
            sys.argv = saved["argv"]
        return out, rec

    @staticmethod
    def literal(out, rec):
        """Coq outcome literal of an observation; raises ValueError if the record is inconsistent."""
        if out != "run":
            if out[0] == "exit":
                if not isinstance(out[1], int) or out[1] < 0:
                    raise ValueError(f"exit code {out[1]!r}")
                return f"(Exit {out[1]})"
            return '(Crash "")'
        r = rec["run"]
        if not r["ast_ok"]:
            raise ValueError("run() did not receive the tree Parser.parse returned")
        paths = {p for p, _ in rec["saves"]}
        if r["emitter"] != bool(rec["saves"]) or len(paths) > 1 or not all(ok for _, ok in rec["saves"]):
            raise ValueError(f"emitter/saves inconsistent: {r['emitter']} {rec['saves']}")
        if r["emitter"] and len(rec["saves"]) != 2:
            raise ValueError(f"expected a save at the start and at the end, got {len(rec['saves'])}")
        save = "None" if not rec["saves"] else f"(Some {qval(rec['saves'][0][0])})"
        lvl, logfile, notime = rec["logger"]
        if not isinstance(lvl, int) or lvl < 0:
            raise ValueError(f"log level {lvl!r}")
        pf, hd, pkw = rec["parse"]
        heads = "None" if hd is None else f"(Some {vlib.cq_list([q(x) for x in hd])})"
        return (f"(Run (mk_run {lvl} {qval(logfile)} {qval(notime)} {qval(pf)} {heads} {qkw(pkw)} {qval(r['program_path'])} "
                f"{qval(rec['loc'])} {qval(r['color'])} {save} {q(r['cls'])} {qkw(r['kw'])}))")


def flag_shape_cmds():
    """the 640 shapes of C17_plumbing, in to_cmdline order, with concrete strings"""
    out = []
    for mode in (None, "F", "L", "f", "l"):
        for fin, strict, nosave, hasout, nocpp, silent, info in itertools.product((False, True), repeat=7):
            opts = []
            if mode is not None:
                opts.append(("--mode", mode))
            opts += [(o, None) for o, b in (("--fin", fin), ("--strict", strict), ("--no_save", nosave)) if b]
            if hasout:
                opts.append(("--out", "res/o.json"))
            opts += [(o, None) for o, b in (("--no_cpp", nocpp), ("--silent", silent), ("--info", info)) if b]
            out.append((["dir/prog.c"], opts))
    return out


WORDS = ["a.c", "dir/b.c", "x", "p.q/r.s.c", "", "out.json", "o/p/q.json", ".hidden", "with space.c", "a,b"]


def rand_cmd(rng):
    pos = [rng.choice(WORDS[:4])] if rng.random() < 0.9 else ([] if rng.random() < 0.5 else [rng.choice(WORDS), rng.choice(WORDS)])
    opts = []
    for _ in range(rng.choice([0, 1, 2, 3, 4, 5, 6, 8])):
        r = rng.random()
        if r < 0.40:
            o = rng.choice(["--fin", "--strict", "--no_save", "--no_cpp", "--no_time", "--info", "--silent", "--color"])
            opts.append((o, rng.choice(WORDS) if rng.random() < 0.04 else None))
        elif r < 0.55:
            opts.append((rng.choice(["--mode", "-m"]), rng.choice(["F", "L", "f", "l", "L", "X", "", "fl", "LL"]) if rng.random() < 0.96 else None))
        elif r < 0.68:
            opts.append((rng.choice(["--out", "-o"]), rng.choice(WORDS[4:]) if rng.random() < 0.95 else None))
        elif r < 0.76:
            opts.append(("--headers", rng.choice(["inc", "a,b", "a,,b", ",", ""]) if rng.random() < 0.95 else None))
        elif r < 0.82:
            opts.append(("--cpp_args", rng.choice([" -E", " -E -DX", "x", ""])))   # a value starting with '-' is outside the model
        elif r < 0.86:
            opts.append(("--cpp_path", rng.choice(["gcc", "cc", "/usr/bin/gcc"])))
        elif r < 0.89:
            opts.append(("--logfile", rng.choice(["log.txt", ""])))
        elif r < 0.92:
            opts.append(("--license", rng.choice(["w", "c", "W", "C", "x", ""])))
        elif r < 0.95:
            opts.append((rng.choice(["--bogus", "-q", "--zz", "--Fin", "--no-save"]), rng.choice([None, None, "v"])))
        elif r < 0.975:
            opts.append((rng.choice(["-v", "--version"]), None))
        else:
            opts.append((rng.choice(["-h", "--help"]), None))
    return pos, opts


def corr_main(ctx, rng, mism, stats):
    H = MainHarness()
    cmds = flag_shape_cmds()
    nshape = len(cmds)
    nrand = ctx.n(600, 6000)
    cmds += [rand_cmd(rng) for _ in range(nrand)]
    cases, kinds = [], {"run": 0, "exit0": 0, "exit1": 0, "exit2": 0, "crash": 0}
    distinct = set()
    for pos, opts in cmds:
        out, rec = H.observe(cmd_argv(pos, opts))
        try:
            lit = H.literal(out, rec)
        except ValueError as e:
            mism.append(f"main() recording on argv {cmd_argv(pos, opts)}: {e}")
            if len(mism) > 5:
                break
            continue
        kinds["run" if out == "run" else ("crash" if out[0] == "crash" else f"exit{out[1]}" if out[1] in (0, 1, 2) else "crash")] += 1
        distinct.add(json.dumps([pos, opts]))
        cases.append((pos, opts, lit))
    hdr = ("From Coq Require Import String List.\nFrom PM Require Import Cli.\nImport ListNotations.\nOpen Scope string_scope.\n")
    jobs = []
    SH = 400
    for s in range(0, len(cases), SH):
        body = ";\n ".join(f"({qcmd(p, o)}, {lit})" for p, o, lit in cases[s:s + SH])
        jobs.append((f"c17_main_{s // SH}", hdr + "Definition cases : list (cmdline * outcome) :=\n [" + body + "].\n"
                     "Eval vm_compute in bad_indices (fun ce : cmdline * outcome => outcome_eqb (main_model (fst ce)) (snd ce)) 0 cases.\n"))
    res = vlib.coq_eval_many(jobs)
    for (name, _), s in zip(jobs, range(0, len(cases), SH)):
        ok, out = res[name]
        vals = vlib.parse_eval_results(out)
        if not ok or not vals:
            mism.append(f"{name}.v did not evaluate: " + out[-400:])
        elif vals[0] != "[]":
            idx = [int(x) for x in vals[0].strip("[]").split(";") if x.strip()]
            p, o, lit = cases[s + idx[0]]
            # shrink: drop option items while the disagreement persists
            p, o, lit = shrink_cmd(H, p, o, hdr)
            mism.append(f"main_model disagrees with the real main() on {len(idx)} command lines of {name}; smallest: argv={cmd_argv(p, o)} real={lit}")
    stats["main_correspondence"] = {"command_lines": len(cases), "flag_shapes": nshape, "random": nrand, "outcomes": kinds,
                                    "distinct": len(distinct)}
    stats["evaluations"] += len(cases)
    if len(stats["samples"]) < 6 and cases:
        p, o, lit = cases[nshape + 1] if len(cases) > nshape + 1 else cases[-1]
        stats["samples"].append({"argv": cmd_argv(p, o), "recorded": lit[:300]})
    return len(distinct)


def model_agrees(H, pos, opts, hdr):
    out, rec = H.observe(cmd_argv(pos, opts))
    try:
        lit = H.literal(out, rec)
    except ValueError:
        return None, None
    ok, o = vlib.coq_eval("c17_main_shrink", hdr + f"Eval vm_compute in outcome_eqb (main_model {qcmd(pos, opts)}) {lit}.\n", timeout=120)
    vals = vlib.parse_eval_results(o)
    return (bool(ok and vals and vals[0] == "true")), lit


def shrink_cmd(H, pos, opts, hdr):
    cur = list(opts)
    _, lit = model_agrees(H, pos, cur, hdr)
    i = 0
    while i < len(cur) and len(cur) > 0:
        t = cur[:i] + cur[i + 1:]
        a, l2 = model_agrees(H, pos, t, hdr)
        if a is False:
            cur, lit = t, l2
        else:
            i += 1
    return pos, cur, lit


# ---------------------------------------------------------------------------------------------------
# correspondence 2/3: PyCParser.parse preparation, add_attr_x, split/join, default_file_out
# ---------------------------------------------------------------------------------------------------

ATTR = "#define __attribute__(x)"


def rand_text(rng):
    pieces = ["int x;", "int f(int a)", "{", "}", "  a = a + a;", "", " ", ATTR, ATTR + " /* mine */", " " + ATTR, "#define __attribute__(y)",
              "#define __attribute__", "x" + ATTR, "\t" + ATTR, "#include <stdio.h>", "// c", ATTR[:-1]]
    n = rng.choice([0, 1, 2, 3, 5, 8])
    t = "\n".join(rng.choice(pieces) for _ in range(n))
    if rng.random() < 0.3:
        t += "\n"
    return t


def rand_path(rng):
    if rng.random() < 0.5:
        return "".join(rng.choice("ab./_-c ") for _ in range(rng.choice([0, 1, 2, 3, 5, 8, 12])))
    d = rng.choice(["", "/", "d/", "/abs/dir/", "a.b/", "../", "./", "d//"])
    b = rng.choice(["prog", "a.b", ".hid", "..", "...x", "x.", "", "my prog", "x.tar"])
    e = rng.choice([".c", ".C", "", ".", ".c.c", ".json"])
    return d + b + e


def corr_parts(ctx, rng, root, mism, stats):
    vlib.import_pymwp()
    import pymwp.parser as PP
    from pymwp.file_io import default_file_out
    PC = PP.PyCParser
    hdr = ("From Coq Require Import String List Bool.\nFrom PM Require Import Cli.\nImport ListNotations.\nOpen Scope string_scope.\n")
    # --- add_attr_x / split / join ---
    texts = [rand_text(rng) for _ in range(ctx.n(250, 2000))]
    texts = list(dict.fromkeys(texts))
    rows = []
    for t in texts:
        ls = t.split("\n")
        assert "\n".join(ls) == t
        rows.append(f"({q(t)}, {q(PC.add_attr_x(t))}, {vlib.cq_list([q(x) for x in ls])})")
    # --- default_file_out ---
    paths = list(dict.fromkeys(rand_path(rng) for _ in range(ctx.n(300, 3000))))
    prow = [f"({q(p)}, {q(default_file_out(p))})" for p in paths]
    # --- PyCParser.parse preparation ---
    fake = PP.fake_libc_dir
    seen_kw = []
    prep = []
    saved = PP.parse_file
    src = os.path.join(root, "prep.c")
    try:
        for _ in range(ctx.n(150, 1200)):
            t = rand_text(rng)
            with open(src, "w") as fh:
                fh.write(t)
            kw = []
            r = rng.random()
            if r < 0.85:
                kw.append(("use_cpp", rng.choice([True, True, False])))
            if rng.random() < 0.7:
                kw.append(("cpp_path", rng.choice(["gcc", "cc"])))
            if rng.random() < 0.8:
                kw.append(("cpp_args", rng.choice(["-E", "-E -DX", "-DX", "", "-DX  -DY", None, "-E -E"])))
            rng.shuffle(kw)
            headers = rng.choice([None, None, [], ["inc"], ["a", "b/c"]])
            got = {}

            def pf_stub(filename, **k):
                with open(filename) as fh:
                    got["text"] = fh.read()
                got["kw"] = list(k.items())
                return "AST"
            PP.parse_file = pf_stub
            try:
                PC.parse(src, headers, **dict(kw))
                exp = f"(Some ({q(got['text'])}, {qkw(got['kw'])}))"
            except Exception:
                exp = "None"
            finally:
                PP.parse_file = saved
            hl = "None" if headers is None else f"(Some {vlib.cq_list([q(h) for h in headers])})"
            prep.append(f"({hl}, {qkw(kw)}, {q(t)}, {exp})")
            seen_kw.append(json.dumps(kw))
    finally:
        PP.parse_file = saved
    text = (hdr +
            "Definition texts : list (string * string * list string) :=\n [" + ";\n ".join(rows) + "].\n"
            "Eval vm_compute in bad_indices (fun r : string * string * list string => let '(t, a, ls) := r in\n"
            "  (add_attr_x t =? a) && list_eqb String.eqb (lines t) ls && (unlines ls =? t)\n"
            "  && list_eqb String.eqb (lines a) (add_attr_x_lines ls)) 0 texts.\n"
            "Definition paths : list (string * string) :=\n [" + ";\n ".join(prow) + "].\n"
            "Eval vm_compute in bad_indices (fun r : string * string => default_file_out (fst r) =? snd r) 0 paths.\n"
            "Definition preps : list (option (list string) * list (string * val) * string * option (string * list (string * val))) :=\n ["
            + ";\n ".join(prep) + "].\n"
            f"Eval vm_compute in bad_indices (fun r : option (list string) * list (string * val) * string * option (string * list (string * val)) =>\n"
            f"  let '(h, kw, t, e) := r in prep_eqb (parse_prep {q(fake)} h kw t) e) 0 preps.\n")
    ok, out = vlib.coq_eval("c17_parts", text)
    vals = vlib.parse_eval_results(out)
    if not ok or len(vals) != 3:
        mism.append("c17_parts.v did not evaluate: " + out[-500:])
    else:
        for nm, v, data in (("add_attr_x / split / join", vals[0], texts), ("default_file_out", vals[1], paths), ("PyCParser.parse preparation", vals[2], prep)):
            if v != "[]":
                idx = [int(x) for x in v.strip("[]").split(";") if x.strip()]
                small = min((data[i] for i in idx), key=lambda x: len(str(x)))
                mism.append(f"model of {nm} disagrees with the real code on {len(idx)} inputs; smallest: {small!r}"[:600])
    stats["parts_correspondence"] = {"texts": len(texts), "texts_with_define_line": sum(any(l.startswith(ATTR) for l in t.split("\n")) for t in texts),
                                     "paths": len(paths), "parse_preparations": len(prep), "distinct_parse_kwargs": len(set(seen_kw))}
    stats["evaluations"] += len(texts) + len(paths) + len(prep)
    return len(texts) + len(paths) + len(set(prep))


# ---------------------------------------------------------------------------------------------------

def run(ctx):
    rng = ctx.rng
    failing, mism = [], []
    stats = {"evaluations": 0, "samples": []}
    root = tempfile.mkdtemp(prefix="c17_")
    try:
        nontriv, degenerate = search(ctx, rng, root, failing, stats)
        n1 = n2 = 0
        if ctx.coq_ok:
            n1 = corr_main(ctx, rng, mism, stats)
            n2 = corr_parts(ctx, rng, root, mism, stats)
        else:
            mism.append("model not built: correspondence not run")
        if degenerate:
            mism.append(f"generator degenerate: no file in the pool on which {degenerate} changes the library result")
    finally:
        shutil.rmtree(root, ignore_errors=True)
    stats["distinct_nontrivial"] = len(nontriv) + n1 + n2
    stats["rule"] = ("search: one evaluation = one `python -m pymwp` subprocess; non-trivial = distinct (file, flag combination) whose saved JSON was "
                     "compared with the library result. correspondence: distinct command lines run through the real main() with recorders "
                     "(all 640 flag shapes + random rich ones), distinct texts / paths / parse preparations; every one compared inside Coq.")
    stats["tier_plan"] = ("thorough: every file x all 2 x 2^5 x 3 combinations (mode, fin, strict, no_save, out, no_cpp, log; lower-case / absent mode, "
                          "sub-directory, absolute path and file-last variants interleaved)" if ctx.thorough else
                          "quick: per file 4 seeded flag bases jointly covering every flag value, each run with and without --no_cpp on preprocessed files")
    return {"failing": failing, "corr_mismatch": mism, "stats": stats}


def replay(ctx, data):
    inp = data.get("input", data)
    job = inp.get("job")
    if not job:
        return None
    lib = Lib()
    if inp.get("kind") == "cli-pair":
        out = {}
        for nc in (False, True):
            j = json.loads(json.dumps(job))
            j["flags"]["no_cpp"] = nc
            fs, info = check_one(j, lib)
            if fs:
                return fs[0]
            out[nc] = info["json"]
        if out[False] != out[True]:
            return {"what": "cpp-dependence: the saved JSON differs with and without --no_cpp", "sig": ["C17", "cpp-dependence", ""],
                    "input": inp, "expected": out[False], "observed": out[True]}
        return None
    fs, _ = check_one(job, lib)
    want = data.get("sig")
    for f in fs:
        if want is None or f["sig"][:2] == want[:2]:
            return f
    return fs[0] if fs else None
