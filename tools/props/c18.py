"""C18: unary operators and casts are analysed as their documented rewriting.
search = metamorphic: a generated program containing sugar forms in every statement position and its twin with
each form replaced by the plain rewriting must give the same result (verdict, degree, variables, valid
vectors, matrix at every vector, bound); correspondence = Coq model (which performs the rewriting) vs real code."""
import itertools
import vlib
import e2e
import gen_prog
import streams

ID = "C18"
LEVEL = "proof"
MODEL_TARGETS = ["theories/Analysis.vo"]
TRANSLATORS = ["semiring", "rules"]
LEVEL_TEXT = ("Theorems in coq/props/C18.v: in the Coq model of Analysis.compute_relation every supported unary form is analysed exactly as its plain "
              "rewriting (same index, relation, exit flag and delta graph), in any statement position (the model is a function of the sub-results); "
              "cast transparency for all trees in the dispatch model (one cast around a whole right-hand side, with the weakest side condition and the "
              "counterexample of two nested casts; any number of casts around the operands of a binary operation); "
              "the model is tied to the code on programs containing each form at top level, in branches and in loop bodies; the real tool is run on "
              "sugar/plain twin programs and must give identical results.")
LEVEL_NOTE = "Trusted: Coq kernel, reader tools/cread.py (which looks through casts exactly where compute_relation/rm_cast do), generators."
TECHNIQUE = "Coq proof over an executable model + metamorphic twin runs on the real tool + differential correspondence"
EXPLANATION = "see LEVEL_TEXT"
ASSUMPTIONS = ["y = -x is compared with y = x * 2 (any constant factor gives the same flow)"]

FORMS = [
    # (sugar, plain statements, consumes a site)
    ("{x}++;", ["{x} = {x} + 1;"], True), ("++{x};", ["{x} = {x} + 1;"], True),
    ("{x}--;", ["{x} = {x} - 1;"], True), ("--{x};", ["{x} = {x} - 1;"], True),
    ("{y} = {x}++;", ["{y} = {x};", "{x} = {x} + 1;"], True), ("{y} = ++{x};", ["{x} = {x} + 1;", "{y} = {x};"], True),
    ("{y} = {x}--;", ["{y} = {x};", "{x} = {x} - 1;"], True), ("{y} = --{x};", ["{x} = {x} - 1;", "{y} = {x};"], True),
    ("{y} = -{x};", ["{y} = {x} * 2;"], True), ("{y} = +{x};", ["{y} = {x};"], False),
    ("{y} = !{x};", ["{y} = 1;", "{x} = {x};"], False), ("{y} = sizeof({x});", ["{y} = 8;", "{x} = {x};"], False),
    # ! and sizeof discard their operand whatever it is (the result is a constant)
    ("{y} = !(int){x};", ["{y} = 1;", "{x} = {x};"], False), ("{y} = !!{x};", ["{y} = 1;", "{x} = {x};"], False),
    ("{y} = !-{x};", ["{y} = 1;", "{x} = {x};"], False), ("{y} = sizeof((long){x});", ["{y} = 8;", "{x} = {x};"], False),
    ("{y} = sizeof(!{x});", ["{y} = 8;", "{x} = {x};"], False),
    ("{y} = (int)({x} + {z});", ["{y} = {x} + {z};"], True), ("{y} = (int){x};", ["{y} = {x};"], False),
    ("{y} = (long)({x} * {x});", ["{y} = {x} * {x};"], True),
    ("{y} = (int){x} + {z};", ["{y} = {x} + {z};"], True), ("{y} = {x} - (int){z};", ["{y} = {x} - {z};"], True),
    ("{y} = (int)-{x};", ["{y} = {x} * 2;"], True), ("{y} = (int)5;", ["{y} = 5;"], False), ("{y} = -3;", ["{y} = 3;"], False),
    # every cast type is transparent, not only int / long
    ("{y} = (_Bool){x};", ["{y} = {x};"], False), ("{y} = (unsigned char){x};", ["{y} = {x};"], False), ("{y} = (const long){x};", ["{y} = {x};"], False),
    ("{y} = (_Bool)({x} + {z});", ["{y} = {x} + {z};"], True), ("{y} = (short){x} * {z};", ["{y} = {x} * {z};"], True),
    ("{y} = (unsigned){x}++;", ["{y} = {x};", "{x} = {x} + 1;"], True), ("{y} = (double)-{x};", ["{y} = {x} * 2;"], True),
    # literals of every kind under a sign; two literals of which one is cast
    ("{y} = -1.5;", ["{y} = 3;"], False), ("{y} = -0x10;", ["{y} = 3;"], False), ("{y} = -10L;", ["{y} = 3;"], False),
    ("{y} = -7u;", ["{y} = 3;"], False), ("{y} = -'A';", ["{y} = 3;"], False), ("{y} = +2.5e3;", ["{y} = 3;"], False),
    ("{y} = (long)1024 * 1024;", ["{y} = 3;"], False), ("{y} = (int)'a' - (int)'A';", ["{y} = 3;"], False), ("{y} = 2 + (int)3;", ["{y} = 3;"], False),
    ("{y} = (int)5 + {x};", ["{y} = 5 + {x};"], True), ("{y} = {x} * (long)2;", ["{y} = {x} * 2;"], True),
    # the plain twin keeps the MENTION of the operand (`x = x;` has the identity flow): a mention decides whether a counted loop whose
    # guard it is is accepted, so dropping it would compare an accepted function with a refused one (false alarm of sweep seed 3)
    ("+{x};", ["{x} = {x};"], False), ("-{x};", ["{x} = {x};"], False), ("!{x};", ["{x} = {x};"], False),
]


# forms at the edge of the supported list: the gate refuses them today (two casts around a whole right-hand side are NOT transparent,
# props/C18.v: C18_cast_twice_not_transparent); if a version of the gate accepts one, the analysis must give it the flow of its rewriting
EDGE_FORMS = [
    ("{y} = (int)(int){x};", ["{y} = {x};"]), ("{y} = (unsigned)(unsigned char){x};", ["{y} = {x};"]),
    ("{y} = (int)(long){x}++;", ["{y} = {x};", "{x} = {x} + 1;"]), ("{y} = (int)(int)({x} + {z});", ["{y} = {x} + {z};"]),
    ("{y} = (long)(int)-{x};", ["{y} = {x} * 2;"]),
]


class G(gen_prog.Gen):
    def sugar_stmt(self):
        sug, plain, site = self.r.choice(FORMS)
        if site and self.sites >= self.c.max_sites:
            return self.simple_nosite()
        if site:
            self.sites += 1
        x, y, z = self.var(), self.var(), self.var()
        fmt = lambda t: t.format(x=x, y=y, z=z)
        return ("s2", fmt(sug), [fmt(p) for p in plain])


def lower(tree, which):
    out = []
    for s in tree:
        k = s[0]
        if k == "s2":
            if which == "sugar":
                out.append(("s", s[1]))
            elif len(s[2]) == 1:
                out.append(("s", s[2][0]))
            else:
                out.append(("block", [("s", t) for t in s[2]]))
        elif k == "block":
            out.append(("block", lower(s[1], which)))
        elif k in ("while", "dowhile"):
            out.append((k, s[1], lower([s[2]], which)[0]))
        elif k == "if":
            out.append(("if", s[1], lower([s[2]], which)[0], None if s[3] is None else lower([s[3]], which)[0]))
        elif k == "for":
            out.append(("for", s[1], s[2], s[3], lower([s[4]], which)[0]) + tuple(s[5:]))
        else:
            out.append(s)
    return out


def observable(d):
    o = {k: d.get(k) for k in ("infinite", "index", "variables", "valid", "bound")}
    rel = d.get("apply")
    if rel is not None and d["index"] <= 6 and not d["infinite"]:
        o["matrices"] = [rel.apply_choice(*c).matrix if (d["valid"] is None or d["valid"][n_]) else None
                         for n_, c in enumerate(itertools.product((0, 1, 2), repeat=d["index"]))]
    return o


def twin_case(ctx):
    cfg = gen_prog.Cfg(nvars=ctx.rng.choice([2, 3]), max_sites=ctx.rng.choice([3, 4, 5]), sugar=True, constants=ctx.rng.random() < 0.5,
                       max_depth=ctx.rng.choice([1, 2, 3]), max_stmts=ctx.rng.choice([2, 3, 4]))
    g = G(ctx.rng, cfg)
    tree = g.program() + [g.sugar_stmt()]
    a = gen_prog.render(lower(tree, "sugar"), g.vars)
    b = gen_prog.render(lower(tree, "plain"), g.vars)
    return a, b, sum(1 for _ in str(tree).split("'s2'")) - 1


def compare(a, b, fin, strict, failing, edge=False):
    ra, rb = e2e.run_real(a, fin, strict), e2e.run_real(b, fin, strict)
    inp = {"src": a, "twin": b, "opts": {"fin": fin, "strict": strict}}
    if edge:
        inp["edge"] = True
        if not ra["exc"] and ra["funcs"].get("f") is None:
            return None, None          # an edge form the gate refuses: nothing is claimed about it
    if ra["exc"] or rb["exc"]:
        if (ra["exc"] or [None])[0] in ("ParseError", "Timeout") or (rb["exc"] or [None])[0] in ("ParseError", "Timeout"):
            return None, None
        failing.append({"what": f"raise: sugar program {ra['exc']} / plain twin {rb['exc']}", "sig": ["C18", "raise"] + list((ra["exc"] or rb["exc"])[:2]), "input": inp})
        return None, None
    da, db = ra["funcs"].get("f"), rb["funcs"].get("f")
    if (da is None) != (db is None):
        failing.append({"what": "accepted-differs: the syntax check accepts only one of the sugar program and its plain twin", "sig": ["C18", "accepted-differs"], "input": inp,
                        "expected": db is not None, "observed": da is not None})
        return da, db
    if da is None:
        return None, None
    oa, ob = observable(da), observable(db)
    for k in oa:
        if oa[k] != ob.get(k):
            failing.append({"what": f"twin-differs: field {k} of the sugar program differs from its plain rewriting", "sig": ["C18", "twin-differs", k], "input": inp,
                            "expected": ob.get(k) if k != "matrices" else "equal matrices", "observed": oa[k] if k != "matrices" else "different"})
            break
    return da, db


def run(ctx):
    vlib.import_pymwp()
    n = ctx.n(150, 1500)
    failing, mism, coq_cases, recs = [], [], [], []
    nforms = 0
    for i in range(n):
        a, b, nf = twin_case(ctx)
        nforms += nf
        for fin, strict in ((True, False), (False, True)):
            da, db = compare(a, b, fin, strict, failing)
            if da is not None and db is not None:
                recs.append(da)
                if da["typed"] is not None and da["index"] <= 5 and not strict:
                    coq_cases.append((f"sugar {i}\n{a}", da, not fin))
    # every form alone, in four contexts
    ctxs = ["{S}", "if (x > 0) {{ {S} }} else {{ y = x; }}", "while (x > 0) {{ {S} }}", "while (x > 0) {{ if (y > 0) {{ z = x; }} else {{ {S} }} }}",
            # counted loops whose guard variable is an operand of the form: the form and its rewriting must agree on whether the
            # guard occurs in the body (and hence on whether this is an mwp loop at all)
            "for (z = 0; z < x; z++) {{ {S} }}", "for (x = 0; x < z; x++) {{ {S} }}", "for (y = 0; y < z; y++) {{ {S} }}",
            "while (y > 0) {{ for (z = 0; z < x; z++) {{ {S} }} }}"]
    import re as _re
    idents = lambda t: set(_re.findall(r"\{([xyz])\}", t))
    for sug, plain, _ in FORMS:
        for cx in ctxs:
            if cx.lstrip().startswith(("for", "while (y > 0) {{ for")) and idents(sug) != set().union(*[idents(p) for p in plain]):
                # `!x`, `sizeof(x)`, `+x;` ... rewrite to something that no longer MENTIONS x; whether x occurs in a loop body
                # legitimately decides if a for loop is an mwp loop, so these forms are not compared inside a loop guarded by x
                continue
            inst = lambda t: t.format(x="x", y="y", z="z")
            mk = lambda text: "int f(int x, int y, int z)\n{\n" + cx.format(S=text) + "\n}\n"
            a = mk(inst(sug))
            b = mk(inst(plain[0]) if len(plain) == 1 else "{ " + " ".join(inst(t) for t in plain) + " }")
            for strict in (False, True):
                da, db = compare(a, b, True, strict, failing)
                if da is not None and db is not None and da["typed"] is not None and not strict:
                    recs.append(da)
                    coq_cases.append((f"form {sug} in {cx}", da, False))
    nedge = 0
    for sug, plain in EDGE_FORMS:
        for cx in ctxs[:4]:
            inst = lambda t: t.format(x="x", y="y", z="z")
            mk = lambda text: "int f(int x, int y, int z)\n{\n" + cx.format(S=text) + "\n}\n"
            a = mk(inst(sug))
            b = mk(inst(plain[0]) if len(plain) == 1 else "{ " + " ".join(inst(t) for t in plain) + " }")
            ra = e2e.run_real(a, True, True)
            if ra["exc"] or ra["funcs"].get("f") is None:
                continue                      # refused in strict mode: nothing is claimed about it
            nedge += 1
            compare(a, b, True, True, failing, edge=True)
    if ctx.coq_ok:
        mism += e2e.coq_compare("c18", coq_cases)
    else:
        mism.append("model not built: analysis correspondence not run")
    distinct = len({repr(d["typed"]) for d in recs if d.get("typed")})
    stats = {"evaluations": len(recs), "distinct_nontrivial": distinct,
             "rule": "random programs with unary/cast forms at every statement position + every form alone in 4 contexts (top level, branch, loop body, branch in loop); "
                     "each compared with its plain-rewriting twin on the real tool; non-trivial = distinct typed function",
             "samples": [twin_case(ctx)[0]], "forms": len(FORMS), "edge_forms_accepted_in_strict_mode": nedge, "form_occurrences": nforms, "coq_model_cases": len(coq_cases),
             "distribution": streams.distribution(recs)}
    return {"failing": failing, "corr_mismatch": mism, "stats": stats}


def replay(ctx, data):
    vlib.import_pymwp()
    inp = data.get("input", data)
    failing = []
    o = inp.get("opts", {})
    compare(inp["src"], inp["twin"], o.get("fin", True), o.get("strict", False), failing, edge=bool(inp.get("edge")))
    return failing[0] if failing else None
