"""C08: loop mode gives a variable a bound only from a derivation valid for it.

search   = the REAL LoopAnalysis.run on generated functions with loops (while / do-while / counted for,
           nested); for every loop the steps of LoopAnalysis.inspect are re-run in the harness (Variables,
           RelationList.identity, LoopAnalysis.cmds(..., stop=False)) to obtain the relation and the degree,
           and every reported variable is checked directly against independent readings of the polynomial
           matrix (flags nested; chosen vector accepted at the level of the flags and at no lower level; bound
           = column at the chosen vector; class = largest coefficient of the column; unbounded iff no accepted
           vector; maybe_result's dependency test) and against the calculus oracle tools/calc.py restricted to
           the dependency cone of the variable (slice of the loop: only assignments that can flow into it).
correspondence = the Coq model coq/theories/LoopAn.v (inspect / get_result / maybe_result) against the real
           per-variable results on the same loops, the real `first` vectors fed in, compared inside Coq."""
import itertools
import re
import time

import vlib
import e2e
import calc
import cread
import gen_prog
import streams
import polylib as PL

ID = "C08"
LEVEL = "proof"
MODEL_TARGETS = ["theories/LoopAn.vo"]
TRANSLATORS = ["semiring", "rules"]
LEVEL_TEXT = ("Structural clauses PROVED in Coq (coq/props/C08.v) about the executable model LoopAn.v of LoopAnalysis.inspect / get_result / "
              "maybe_result and the VResult setters, for every relation, degree and every vector the Choices specification allows as `first`: "
              "flags nested under every setter sequence; reported bound = column of apply_choice at the chosen vector read by Bound.calculate; "
              "class = least ladder level at which the chosen vector is accepted = largest coefficient of that column; never unbounded in the "
              "non-failing case; exact characterisation of maybe_result. The dependency clause (chosen vector valid for every variable the "
              "reported one depends on) is REFUTED on the faithful model (C08_valid_for_dependencies_refuted, DESIGN D10) and a second defect "
              "(nested early exit: the outer loop is reported from the inner loop's relation only) is refuted as C08_early_exit_partial_refuted; "
              "both are open known findings reproduced on the real code on every run. 'Every terminating execution respects the bound' is NOT "
              "proved here (it is false on both witnesses; where derivations are valid it is property C03's). The model is tied to the code by "
              "differential correspondence (flags, bound triples, accepted-vector sets, degree, relation) on generated loops, and the real tool "
              "is searched against independent matrix readings and the calculus oracle on the dependency slice.")
LEVEL_NOTE = ("Trusted: Coq kernel; translators rules/semiring; the reader tools/cread.py; generators; tools/calc.py and the slicing rule as the "
              "meaning of 'derivation valid for the variable and everything it depends on'. The Choices object is used through its specification "
              "(C04): the chosen vector is a parameter of the model, the real `first` is fed in and checked to be an accepted vector.")
TECHNIQUE = ("Coq proofs over an executable model + vm_compute refutation witnesses + differential correspondence (vm_compute) + "
             "direct search with independent matrix readings and a cone-restricted calculus oracle")
EXPLANATION = "see LEVEL_TEXT"
ASSUMPTIONS = ["loops inside the typed fragment read by tools/cread.py (other shapes: direct checks only, no calculus / Coq comparison)",
               "degree <= 6 for exhaustive enumeration of choice vectors",
               "dependency cone = backward closure of the syntactic flow edges of the loop's assignments; the derivation 'restricted to the cone' "
               "is the calculus derivation of the loop with every assignment outside the cone replaced by a no-op (site numbering kept)"]

DOMAIN = (0, 1, 2)
ORD = {"o": 0, "m": 1, "w": 2, "p": 3, "i": 4}
# the ladder as the property states it: linear = no w/p in the column, weak = no p, polynomial = anything finite
LEVELS = [("is_m", ("w", "p")), ("is_w", ("p",)), ("is_p", ())]
MAXK = 6

CORPUS = [
    ("D10", "int f(int X,int a,int k,int v,int i){ for(i=0;i<X;i++){k=k+a; v=k;} }"),
    ("early-exit", "int f(int x,int y,int c,int d){ while(c>0){ while(d>0){ x = x + x; } y = y * y; } }"),
    ("early-exit-before", "int f(int x,int y,int c,int d){ while(c>0){ y = y * y; while(d>0){ x = x + x; } } }"),
    ("not-infinite-3", "int f(int X0,int X1,int X2){ while(X1<10){ X0 = X1 + X2; X1 = X1 + 1; } }"),
    ("one-ok-variable", "int f(int X1,int X2,int X3,int X4,int X5){ while(X1<10){ X1 = X2 + X3; X2 = X1 + X1; X3 = X2 * X2; X4 = X3 + X1; X5 = X5 + 1; } }"),
    ("for-subst", "int f(int x,int y,int x_,int i){ for(i=0;i<x_;i++){ y = y + x; } }"),
    ("for-poly", "int f(int x,int y,int n,int i){ for(i=0;i<n;i++){ x = x + y; } }"),
    ("joint-only", "int f(int x,int y,int z){ while(z>0){ x = y + z; y = x + z; } }"),
    ("dowhile", "int f(int x,int y){ do { x = x * y; } while (x < y); }"),
    ("no-sites", "int f(int x,int y){ while(x>0){ x = y; y = 3; } }"),
    ("nested-ok", "int f(int x,int y,int z){ while(x>0){ while(y>0){ z = z + x; } x = y; } }"),
]


# ---------------------------------------------------------------------------
# independent readings of a polynomial matrix (plain data: [(scalar, [(value, site), ...]), ...])
# ---------------------------------------------------------------------------

def mono_matches(ds, c):
    return all(site < len(c) and c[site] == val for (val, site) in ds)


def col_accepts(colpolys, excl, c):
    """no monomial of the column whose coefficient is excluded (or infinity) is selected by c"""
    bad = set(excl) | {"i"}
    for poly in colpolys:
        for s, ds in poly:
            if s in bad and mono_matches(ds, c):
                return False
    return True


def cell_at(poly, c):
    ss = [s for s, ds in poly if mono_matches(ds, c)]
    return max(ss, key=lambda s: ORD[s]) if ss else "o"


def column_at(colpolys, c):
    return [cell_at(p, c) for p in colpolys]


def triple_of(vs, colv):
    return tuple(tuple(sorted(u for u, s in zip(vs, colv) if s == k)) for k in ("m", "w", "p"))


def vectors(k):
    return itertools.product(DOMAIN, repeat=k)


# ---------------------------------------------------------------------------
# the calculus with LOCATED failures: which variables does a failing side condition reach?
# ---------------------------------------------------------------------------
# tools/calc.py answers "is there a derivation" for the whole statement.  The property speaks about one
# variable and what it depends on, so the same rules are run here over the scalars o < m < w < p < i where
#   * `i` marks "no bound": a cell (u, j) that violates the side condition of the loop being closed makes
#     variable j unbounded in that loop (W: p anywhere, w on the diagonal; L: diagonal other than m);
#   * dependence is what the derivation matrix says: v depends on j when the closed matrix has a non-zero
#     entry (j, v); everything that depends on an unbounded variable is unbounded: M := M + Minf x M, where
#     Minf keeps the columns of the unbounded variables (non-zero entries replaced by i);
#   * products follow the calculus: zero annihilates (no dependence, nothing propagates), otherwise i absorbs.
# "The derivation at vector c is failure-free for v and for every variable v transitively depends on"
#  :=  column v of the resulting matrix contains no i.

ORD5 = {"o": 0, "m": 1, "w": 2, "p": 3, "i": 4}


def smax5(a, b):
    return a if ORD5[a] >= ORD5[b] else b


def sprod5(a, b):
    if a == "o" or b == "o":
        return "o"
    return smax5(a, b)


class LMat(calc.Mat):
    """calc.Mat over the five scalars (same code, the two operations replaced)"""
    def mul(self, other):
        vs = self.with_vars(other.vars)
        r = LMat(vars_=vs)
        for i in vs:
            for j in vs:
                acc = "o"
                for k in vs:
                    acc = smax5(acc, sprod5(self.get(i, k), other.get(k, j)))
                r.c[(i, j)] = acc
        return r

    def add(self, other):
        vs = self.with_vars(other.vars)
        r = LMat(vars_=vs)
        for i in vs:
            for j in vs:
                r.c[(i, j)] = smax5(self.get(i, j), other.get(i, j))
        return r

    def star(self):
        fix = LMat(vars_=self.vars)
        cur = LMat(vars_=self.vars)
        while True:
            cur = cur.mul(self)
            nxt = fix.add(cur)
            if nxt.eq(fix):
                return nxt
            fix = nxt


def lift(m):
    return LMat(m.c, m.vars)


def spread(m, unbounded):
    """M + Minf x M for the set of unbounded variables"""
    if not unbounded:
        return m
    minf = LMat(vars_=m.vars)
    for i in m.vars:
        for j in m.vars:
            minf.c[(i, j)] = "i" if (j in unbounded and m.get(i, j) != "o") else "o"
    return m.add(minf.mul(m))


class LocWalk(calc.Walk):
    def seq(self, ss):
        m = LMat()
        for s in ss:
            m = m.mul(self.stmt(s))
        return m

    def stmt(self, s):
        k = s[0]
        if k == "while":
            m = lift(self.stmt(s[2])).star()
            bad = set()
            for i in m.vars:
                for j in m.vars:
                    v = m.get(i, j)
                    if v in ("p", "i") or (v == "w" and i == j):
                        bad.add(j)
            return spread(m, bad)
        if k == "for":
            x = calc.loop_compat(s)
            if x is None:
                return LMat()
            body = lift(self.stmt(s[5]))
            body.vars = body.with_vars([x])
            m = body.star()
            bad = {i for i in m.vars if m.get(i, i) != "m"} | {j for i in m.vars for j in m.vars if m.get(i, j) == "i"}
            add = {}
            for i in m.vars:
                for j in m.vars:
                    if m.get(i, j) == "p":
                        add[(x, j)] = "p"
            for key, val in add.items():
                m.c[key] = smax5(m.get(*key), val)
            return spread(m, bad)
        if k == "if":
            t = self.seq(s[1])
            e = self.seq(s[2])
            return e.add(t)
        if k == "block":
            return self.seq(s[1])
        return lift(calc.Walk.stmt(self, s))     # leaves: the rules of tools/calc.py, unchanged


def located_column(loop, vs, v, c):
    """column of v in the derivation of the loop at vector c with located failures"""
    w = LocWalk(list(c))
    m = w.seq([loop])
    return [m.get(u, v) for u in vs]


def unbounded_reach(loop, vs, v, c):
    col = located_column(loop, vs, v, c)
    return [u for u, s in zip(vs, col) if s == "i"]


# ---------------------------------------------------------------------------
# the real code
# ---------------------------------------------------------------------------

def _vres(r, k):
    d = {"m": bool(r.is_m), "w": bool(r.is_w), "p": bool(r.is_p), "exp": bool(r.exponential),
         "triple": None, "first": None, "valid": None, "has_choices": r.choices is not None, "choices_infinite": None}
    if r.bound is not None:
        d["triple"] = tuple(tuple(x) for x in r.bound.bound_triple)
    if r.choices is not None:
        d["choices_infinite"] = bool(r.choices.infinite)
        f = r.choices.first
        d["first"] = list(f) if f is not None else None
        d["choices_index"] = r.choices.index
        if k <= MAXK:
            d["valid"] = [bool(r.choices.is_valid(*c)) for c in vectors(k)]
    return d


def analyse(src, strict=False, timeout=40):
    """LoopAnalysis.run on C text + the steps of LoopAnalysis.inspect re-run on a second parse of the same text.
    Returns {"exc": ..., "loops": [record]}"""
    vlib.import_pymwp()
    from pymwp import Analysis, LoopAnalysis, Variables, FindLoops, RelationList, Choices, DeltaGraph
    from pymwp.parser import Parser as pr
    from pycparser import c_ast
    out = {"src": src, "strict": strict, "exc": None, "loops": []}
    try:
        ast1, ast2 = e2e.parse(src), e2e.parse(src)
    except Exception as e:
        out["exc"] = ["ParseError", str(e)[:80]]
        return out
    real = None
    try:
        real = vlib.with_timeout(lambda: LoopAnalysis.run(ast1, strict=strict), timeout)
    except vlib.CaseTimeout:
        out["exc"] = ["Timeout", None]
    except Exception as e:
        out["exc"] = vlib.exc_sig(e)

    # instrumentation of the second pass only: did the analysed loop itself reach its fixpoint (or did a nested
    # statement make compute_relation return early)?
    state = {"depth": 0, "top_closed": False}
    o_while, o_for, o_fix = Analysis.while_loop, Analysis.for_loop, RelationList.fixpoint

    def wrap(orig):
        def f(index, node, dg):
            state["depth"] += 1
            try:
                return orig(index, node, dg)
            finally:
                state["depth"] -= 1
        return staticmethod(f)

    def fix(self):
        if state["depth"] == 1:
            state["top_closed"] = True
        return o_fix(self)

    for ext in ast2.ext:
        if not isinstance(ext, c_ast.FuncDef):
            continue
        fname = ext.decl.name
        rloops = None
        if real is not None and fname in real.loops:
            rloops = real.loops[fname].loops
        try:
            nodes = [lp for lp in FindLoops(ext).loops if LoopAnalysis.syntax_check(lp, strict)]
        except Exception as e:
            out["loops"].append({"func": fname, "exc": vlib.exc_sig(e), "stage": "find"})
            continue
        for li, node in enumerate(nodes):
            rec = {"func": fname, "li": li, "code": pr.to_c(node), "exc": None, "typed": None, "results": None}
            out["loops"].append(rec)
            try:
                rec["typed"] = cread.stmt(node)
            except cread.OutsideFragment as e:
                rec["outside"] = str(e)
            except Exception as e:
                rec["outside"] = "reader: " + type(e).__name__
            try:
                Analysis.while_loop, Analysis.for_loop, RelationList.fixpoint = wrap(o_while), wrap(o_for), fix
                state["depth"], state["top_closed"] = 0, False
                vs = Variables(node).vars
                rl = RelationList.identity(variables=vs)
                infty_dg, index = vlib.with_timeout(lambda: LoopAnalysis.cmds(rl, 0, [node], stop=False), timeout)
            except Exception as e:
                rec["exc"] = vlib.exc_sig(e) if not isinstance(e, vlib.CaseTimeout) else ["Timeout", None]
                continue
            finally:
                Analysis.while_loop, Analysis.for_loop, RelationList.fixpoint = staticmethod(o_while), staticmethod(o_for), o_fix
            rel = rl.first
            rec["vars"] = list(rel.variables)
            rec["index"] = index
            rec["infty_dg"] = bool(infty_dg)
            rec["top_closed"] = state["top_closed"]
            rec["matrix"] = [[PL.to_data(p) for p in row] for row in rel.matrix]
            whole = rel.eval(list(DOMAIN), index)
            rec["infty"] = bool(infty_dg or whole.infinite)
            # the vector maybe_result takes for its dependency test (same construction, same process => same set order)
            rec["red_first"], rec["red_exc"] = None, None
            if rec["infty"]:
                try:
                    variables = rel.variables
                    pb = dict(zip(variables, map(lambda v: rel.var_eval(list(DOMAIN), index, v), variables)))
                    fail = [v for v, c in pb.items() if c.infinite]
                    rest = dict([(v, pb[v]) for v in (set(variables) - set(fail))])
                    if rest:
                        red = Choices.choice_reduce(*rest.values())
                        rec["red_infinite"] = bool(red.infinite)
                        rec["red_first"] = list(red.first) if red.first is not None else None
                except Exception as e:
                    rec["red_exc"] = vlib.exc_sig(e)
            # results of the real run (aligned by position and by code text), else of a direct call to inspect
            lr = None
            if rloops is not None and li < len(rloops) and rloops[li].loop_code == rec["code"]:
                lr = rloops[li]
                rec["from"] = "run"
            else:
                try:
                    lr = vlib.with_timeout(lambda: LoopAnalysis.inspect(node), timeout)
                    rec["from"] = "inspect"
                except Exception as e:
                    rec["exc"] = vlib.exc_sig(e) if not isinstance(e, vlib.CaseTimeout) else ["Timeout", None]
            if lr is not None:
                rec["results"] = {v: _vres(r, index) for v, r in lr.variables.items()}
                rec["order"] = list(lr.variables.keys())
        if rloops is not None and len(rloops) != len(nodes):
            out["loops"].append({"func": fname, "exc": ["LoopCount", f"{len(rloops)} reported, {len(nodes)} found"], "stage": "align"})
    return out


# ---------------------------------------------------------------------------
# the property, per loop
# ---------------------------------------------------------------------------

def check_loop(rec, src, failing, counts):
    """all direct checks on one loop record. Returns a list of outcome tags (for the statistics)."""
    tags = []
    inp = {"src": src, "loop": rec.get("code"), "strict": rec.get("strict", False)}

    def fail(kind, what, exp=None, obs=None, var=None, extra=None):
        sig = ["C08", kind] + (extra or [])
        failing.append({"what": f"{kind}: {what}", "sig": sig, "input": dict(inp, var=var), "expected": exp, "observed": obs})
        tags.append(kind)

    if rec.get("exc"):
        fail("raise", f"loop analysis raised {rec['exc']}", "a result", rec["exc"], extra=[str(x) for x in rec["exc"]])
        return tags
    res = rec.get("results")
    if res is None:
        return tags
    vs, k, mat = rec["vars"], rec["index"], rec["matrix"]
    if sorted(res.keys()) != sorted(vs):
        fail("variables", "reported variables differ from the variables of the loop's relation", sorted(vs), sorted(res.keys()))
        return tags
    small = k <= MAXK
    allv = list(vectors(k)) if small else None
    typed = rec.get("typed")
    ksites = None
    if typed is not None:
        f = ("func", [], [typed])
        try:
            ksites = calc.count_sites(f)
            if calc.func_vars(f) != vs:
                fail("variables", "the loop's variable list differs from the variables of its statements", calc.func_vars(f), vs)
                typed = None
        except Exception:
            typed = None
    if typed is not None and k > ksites:
        fail("index", f"degree {k} exceeds the {ksites} binary-operation sites of the loop", ksites, k)
    partial = bool(rec["infty_dg"] and not rec["top_closed"])     # a nested statement made the analysis return early
    if partial:
        tags.append("early-exit")
    fail_vars = []
    if small:
        for j, v in enumerate(vs):
            colp = [row[j] for row in mat]
            if k > 0 and not any(col_accepts(colp, (), c) for c in allv):
                fail_vars.append(v)
    for j, v in enumerate(vs):
        r = res[v]
        colp = [row[j] for row in mat]
        counts["variables"] += 1
        # (1) flags nested
        if (r["m"] and not r["w"]) or (r["w"] and not r["p"]) or r["exp"] != (not r["p"]):
            fail("flags", f"{v}: flags not nested m={r['m']} w={r['w']} p={r['p']}", "m -> w -> p", [r["m"], r["w"], r["p"]], v)
            continue
        cls = "m" if r["m"] else "w" if r["w"] else "p" if r["p"] else "inf"
        counts["class_" + cls] += 1
        if not r["p"]:
            # (5) unbounded
            if r["triple"] is not None or r["has_choices"]:
                fail("unbounded-has-bound", f"{v}: all flags false but a bound / choices object is attached", None, [r["triple"], r["has_choices"]], v)
            if not rec["infty"]:
                fail("unbounded", f"{v}: reported unbounded although the loop as a whole has a valid choice vector", "a bound", "unbounded", v)
            continue
        level = 0 if r["m"] else 1 if r["w"] else 2
        excl = LEVELS[level][1]
        c = r["first"]
        # (2) choices object
        if (not r["has_choices"]) or r["choices_infinite"] or c is None or r["triple"] is None:
            fail("no-choice", f"{v}: bounded but choices/bound missing or infinite", "a non-infinite choices object and a bound", r, v)
            continue
        if len(c) != k or any(x not in DOMAIN for x in c):
            fail("first-shape", f"{v}: first vector {c} is not a vector of DOMAIN^{k}", k, c, v)
            continue
        if not col_accepts(colp, excl, c):
            fail("first-not-accepted", f"{v}: chosen vector {c} selects an excluded coefficient at level {LEVELS[level][0]}", "accepted", c, v)
            continue
        if small:
            mine = [col_accepts(colp, excl, x) for x in allv]
            if mine != r["valid"]:
                fail("choices-differ", f"{v}: reported choices are not the vectors accepted at level {LEVELS[level][0]}", mine, r["valid"], v)
                continue
            # (4) least level
            for lower in range(level):
                if k > 0 and any(col_accepts(colp, LEVELS[lower][1], x) for x in allv):
                    fail("not-least-level", f"{v}: a vector is accepted at the lower level {LEVELS[lower][0]}", LEVELS[lower][0], LEVELS[level][0], v)
                    break
        # (3) bound = column at the chosen vector; class = largest coefficient
        colv = column_at(colp, c)
        exp = triple_of(vs, colv)
        if exp != r["triple"]:
            fail("bound", f"{v}: bound is not the column of the chosen vector {c}", exp, r["triple"], v)
            continue
        top = max(colv, key=lambda s: ORD[s])
        want = {"o": "m", "m": "m", "w": "w", "p": "p"}.get(top)
        if want != cls and not (k == 0):
            fail("class", f"{v}: class {cls} but the largest coefficient of the column at {c} is {top}", want, cls, v)
            continue
        if v in fail_vars:
            fail("bounded-without-vector", f"{v}: no vector is accepted for the column, yet a bound is reported", "unbounded", cls, v)
            continue
        # (6) maybe_result's own dependency test, with the vector it used
        if rec["infty"] and small and rec.get("red_first") is not None:
            rf = rec["red_first"]
            fidx = [vs.index(u) for u in fail_vars]
            deps = {cell_at(mat[fi][j], rf) for fi in fidx}
            if deps != {"o"}:
                fail("maybe-result", f"{v}: reported although it depends on a failing variable at the reduced choice {rf}", "unbounded", cls, v)
                continue
        # (7) the derivation is valid for v and everything it depends on
        if typed is None or ksites is None or not small or k > ksites:
            tags.append("no-oracle")
            continue
        counts["oracle_checked"] += 1
        exts = [tuple(c)] if k == ksites else [tuple(c) + e for e in itertools.product(DOMAIN, repeat=ksites - k)] if ksites - k <= 5 else None
        if exts is None:
            tags.append("no-oracle")
            continue
        cols = [located_column(typed, vs, v, e) for e in exts]
        fine = [cc for cc in cols if "i" not in cc]
        ok = any(triple_of(vs, cc) == r["triple"] for cc in fine)
        if ok:
            tags.append("derivation-valid")
            counts["derivation_valid"] += 1
            continue
        if partial:
            fail("early-exit-partial", f"{v}: reported {cls} {r['triple']} from the relation of a nested failing loop only; no extension of the "
                 f"chosen vector {c} is a derivation of the loop valid for {v}", "unbounded / a derivation column", [cls, r["triple"]], v)
        elif not fine:
            # the open finding D10 is: the vector is chosen per variable (from the variable's own column), so it can be one at which the
            # tool's OWN matrix shows the failure in another column.  A vector without derivation at which the tool's matrix shows no
            # infinity at all is something else: the matrix itself misses a side condition.
            reach = unbounded_reach(typed, vs, v, exts[0])
            clean = k == ksites and not any("i" in column_at([row[jj] for row in mat], tuple(c)) for jj in range(len(vs)))
            if clean:
                fail("failure-not-in-matrix", f"{v}: reported {cls} {r['triple']} at vector {c}; the loop has no derivation there (failure reaching {v} from {reach}), "
                     f"yet the tool's matrix shows no infinity in ANY column at that vector", "an infinity somewhere in the matrix at a vector without derivation", c, v)
            else:
                fail("dependency-invalid", f"{v}: reported {cls} {r['triple']} at vector {c}, at which the loop's derivation fails for "
                     f"{reach} that {v} depends on", "a vector valid for the dependencies", c, v)
        else:
            fail("column-differs", f"{v}: bound {r['triple']} differs from the calculus column {triple_of(vs, fine[0])} at {c}",
                 triple_of(vs, fine[0]), r["triple"], v)
    # (5b) variables with no accepted vector must be unbounded
    for v in fail_vars:
        if res[v]["p"]:
            pass        # already reported above
    return tags


# ---------------------------------------------------------------------------
# generators
# ---------------------------------------------------------------------------

def loop_prog(rng):
    """a function whose body is one loop nest built from few variables (loop-mode specific shapes: chains
    k = k + a; v = k, counted for with a fresh guard, nested loops that fail as a whole)"""
    names = ["x", "y", "z", "u"][:rng.choice([2, 3, 3, 4])]
    fresh = [0]
    extra = []

    def operand():
        return str(rng.randrange(1, 5)) if rng.random() < 0.1 else rng.choice(names)

    def leaf():
        r = rng.random()
        x = rng.choice(names)
        if r < 0.62:
            return f"{x} = {operand()} {rng.choice(['+', '+', '+', '-', '*'])} {operand()};"
        if r < 0.85:
            return f"{x} = {rng.choice(names)};"
        if r < 0.93:
            return f"{x} = {rng.randrange(0, 5)};"
        return rng.choice([f"{x}++;", f"{x} = -{rng.choice(names)};", f"{x} = {rng.choice(names)}++;"])

    def loop(depth):
        n = rng.choice([1, 2, 2, 3])
        body = []
        for _ in range(n):
            if depth < 2 and rng.random() < 0.22:
                body.append(loop(depth + 1))
            elif depth < 2 and rng.random() < 0.1:
                body.append(f"if ({rng.choice(names)} > 0) {{ {leaf()} }} else {{ {leaf()} }}")
            else:
                body.append(leaf())
        rng.shuffle(body)
        b = " ".join(body)
        r = rng.random()
        if r < 0.45:
            fresh[0] += 1
            i, n_ = f"i{fresh[0]}", f"n{fresh[0]}"
            extra.extend([i, n_])
            return f"for ({i} = 0; {i} < {n_}; {i}++) {{ {b} }}"
        if r < 0.9:
            return f"while ({rng.choice(names)} > 0) {{ {b} }}"
        return f"do {{ {b} }} while ({rng.choice(names)} > 0);"

    body = loop(0)
    params = ", ".join("int " + v for v in names + extra)
    return f"int f({params}) {{ {body} }}"


def programs(ctx, n):
    out = list(CORPUS)
    for i in range(n):
        if i % 2 == 0:
            out.append((f"loop{i}", loop_prog(ctx.rng)))
        else:
            cfg = streams.cfg_for(ctx.rng, 4)
            cfg.loops = True
            if cfg.bias is None and ctx.rng.random() < 0.5:
                cfg.bias = "two-loops"
            src, _, _ = gen_prog.gen_function(ctx.rng, cfg)
            out.append((f"gen{i}", src))
    return out


# ---------------------------------------------------------------------------
# Coq side
# ---------------------------------------------------------------------------

HEADER = ("From Coq Require Import String List Bool Arith.\nFrom PM Require Import Semiring Poly Rel Analysis LoopAn.\nFrom PM Require Bound.\n"
          "Import ListNotations.\nOpen Scope string_scope.\nOpen Scope list_scope.\n"
          "Definition rel_eqb (a b : rel) : bool := list_eqb String.eqb (rvars a) (rvars b) && list_eqb (list_eqb poly_eqb) (rmat a) (rmat b).\n"
          "Definition strs_eqb (a : list Bound.str) (b : list string) : bool := list_eqb String.eqb (map Bound.to_string a) b.\n"
          "Definition triple := (list string * list string * list string)%type.\n"
          "Definition bound_eqb (a : option Bound.MwpBound) (b : option triple) : bool :=\n"
          "  match a, b with\n  | None, None => true\n"
          "  | Some mb, Some (x, y, z) => let '(x', y', z') := Bound.bound_triple mb in strs_eqb x' x && strs_eqb y' y && strs_eqb z' z\n"
          "  | _, _ => false end.\n"
          "Definition flags_eqb (f : vflags) (b : bool * bool * bool) : bool :=\n"
          "  let '(m, w, p) := b in Bool.eqb (f_m f) m && Bool.eqb (f_w f) w && Bool.eqb (f_p f) p.\n"
          "(* expected result of one variable: name, flags, bound triple, is_valid over all vectors of the reported choices *)\n"
          "Definition evar := (string * (bool * bool * bool) * option triple * option (list bool))%type.\n"
          "(* a case: loop, red_first, firsts, (code raises?, delta-graph infinity, degree, relation, per-variable results) *)\n"
          "Definition case := (stmt * list nat * list (string * list nat) * (bool * bool * nat * rel * list evar))%type.\n"
          "Fixpoint lookup {A} (d : A) (l : list (string * A)) (v : string) : A :=\n"
          "  match l with [] => d | (k, x) :: t => if String.eqb k v then x else lookup d t v end.\n"
          "Fixpoint find_res (l : list (string * vresult)) (v : string) : option vresult :=\n"
          "  match l with [] => None | (k, x) :: t => if String.eqb k v then Some x else find_res t v end.\n"
          "Definition check_var (index : nat) (l : list (string * vresult)) (e : evar) : nat :=\n"
          "  let '(v, fl, tr, bm) := e in\n"
          "  match find_res l v with\n  | None => 7\n  | Some x =>\n"
          "      if negb (flags_eqb (vr_flags x) fl) then 4 else\n"
          "      if negb (bound_eqb (vr_bound x) tr) then 5 else\n"
          "      match vr_choices x, bm with\n"
          "      | None, None => 0\n"
          "      | Some seqs, Some b => if list_eqb Bool.eqb (map (accepted seqs) (vectors [0;1;2] index)) b then 0 else 6\n"
          "      | _, _ => 6 end\n  end.\n"
          "Fixpoint first_bad (index : nat) (l : list (string * vresult)) (es : list evar) : nat :=\n"
          "  match es with [] => 0 | e :: t => match check_var index l e with 0 => first_bad index l t | k => k end end.\n"
          "Definition check (c : case) : nat :=\n"
          "  let '(loop, rf, fs, (err, di, idx, r, es)) := c in\n"
          "  match loop_relation loop with\n"
          "  | RErr _ => if err then 0 else 1\n"
          "  | ROk (di', idx', r') =>\n"
          "      if negb (Bool.eqb di di') then 8 else if negb (Nat.eqb idx idx') then 9 else if negb (rel_eqb r r') then 10 else\n"
          "      match inspect loop rf (lookup [] fs) with\n"
          "      | RErr _ => if err then 0 else 1\n"
          "      | ROk l => if err then 2 else if negb (Nat.eqb (length l) (length es)) then 3 else first_bad idx l es\n"
          "      end\n  end.\n"
          "Fixpoint bad (n : nat) (l : list case) : list (nat * nat) :=\n"
          "  match l with [] => [] | c :: t => match check c with 0 => bad (S n) t | k => (n, k) :: bad (S n) t end end.\n")

CODES = {1: "model raises, code does not", 2: "code raises, model does not", 3: "number of reported variables differs", 4: "flags differ",
         5: "bound triple differs", 6: "accepted vectors of the reported choices differ", 7: "variable missing in the model result",
         8: "delta-graph verdict differs", 9: "degree differs", 10: "relation differs"}


def cq_nats(l):
    return vlib.cq_list([str(x) for x in l])


def cq_strs(l):
    return vlib.cq_list([vlib.cq_str(x) for x in l])


def cq_case(rec):
    res = rec["results"]
    err = res is None
    k = rec["index"]
    firsts, evars = [], []
    if res is not None:
        for v in rec["vars"]:
            r = res[v]
            if r["first"] is not None:
                firsts.append("(%s, %s)" % (vlib.cq_str(v), cq_nats(r["first"])))
            tr = "None" if r["triple"] is None else "(Some (%s, %s, %s))" % tuple(cq_strs(x) for x in r["triple"])
            bm = "None" if r["valid"] is None else "(Some %s)" % vlib.cq_list([vlib.cq_bool(b) for b in r["valid"]])
            evars.append("(%s, (%s, %s, %s), %s, %s)" % (vlib.cq_str(v), vlib.cq_bool(r["m"]), vlib.cq_bool(r["w"]), vlib.cq_bool(r["p"]), tr, bm))
    rel = "(Rel %s %s)" % (cq_strs(rec["vars"]), vlib.cq_list([vlib.cq_list([PL.cq_poly(p) for p in row]) for row in rec["matrix"]]))
    exp = "(%s, %s, %d, %s, %s)" % (vlib.cq_bool(err), vlib.cq_bool(rec["infty_dg"]), k, rel, vlib.cq_list(evars))
    return "(%s, %s, %s, %s)" % (cread.cq_stmt(rec["typed"]), cq_nats(rec.get("red_first") or []), vlib.cq_list(firsts), exp)


def coq_compare(tag, cases, shard=75):
    """cases: list of (label, loop record)"""
    jobs, mism = [], []
    shards = [cases[i:i + shard] for i in range(0, len(cases), shard)]
    for si, sh in enumerate(shards):
        text = HEADER + "Definition cases : list case :=\n " + vlib.cq_list([cq_case(r) for _, r in sh]) + ".\nEval vm_compute in bad 0 cases.\n"
        jobs.append((f"{tag}_s{si}", text))
    outs = vlib.coq_eval_many(jobs, timeout=1200)
    for si, sh in enumerate(shards):
        ok, out = outs[f"{tag}_s{si}"]
        vals = vlib.parse_eval_results(out)
        if not ok or not vals:
            mism.append(f"stream {tag} shard {si}: coqc failed: {out[-400:]}")
            continue
        if vals[0] != "[]":
            pairs = re.findall(r"\((\d+), (\d+)\)", vals[0])
            i, code = int(pairs[0][0]), int(pairs[0][1])
            mism.append(f"stream {tag} shard {si}: {len(pairs)} loops differ; first: {CODES.get(code, code)} on {sh[i][0]!r}")
    return mism


# ---------------------------------------------------------------------------
# plugin entry points
# ---------------------------------------------------------------------------

def shrink_src(src, pred, budget=40):
    """delete statements / lines while the failure (same signature) persists"""
    best = src
    lines = best.split("\n")
    if len(lines) < 3:
        return best
    changed = True
    while changed and budget > 0:
        changed = False
        lines = best.split("\n")
        for i in range(1, len(lines) - 1):
            cand = "\n".join(lines[:i] + lines[i + 1:])
            budget -= 1
            try:
                if pred(cand):
                    best, changed = cand, True
                    break
            except Exception:
                pass
            if budget <= 0:
                break
    return best


def failures_of(src, strict=False):
    import collections
    a = analyse(src, strict)
    failing, counts = [], collections.Counter()
    if a["exc"] and a["exc"][0] not in ("ParseError",):
        failing.append({"what": f"raise: LoopAnalysis.run raised {a['exc']}", "sig": ["C08", "raise"] + [str(x) for x in a["exc"]],
                        "input": {"src": src, "strict": strict}, "expected": "a result", "observed": a["exc"]})
    for rec in a["loops"]:
        rec["strict"] = strict
        if rec.get("stage"):
            failing.append({"what": f"raise: {rec['exc']}", "sig": ["C08", "raise"] + [str(x) for x in rec["exc"]],
                            "input": {"src": src, "strict": strict}, "expected": "a result", "observed": rec["exc"]})
            continue
        check_loop(rec, src, failing, counts)
    return a, failing, counts


def run(ctx):
    import collections
    vlib.import_pymwp()
    t0 = time.time()
    n = ctx.n(360, 4000)
    progs = programs(ctx, n)
    failing, mism = [], []
    import unitcorr
    unitcorr.choice_scalar_check(ctx, ctx.n(300, 3000), failing, "C08")      # every reported column is read through Polynomial.choice_scalar
    counts = collections.Counter()
    tags = collections.Counter()
    coq_cases, samples = [], []
    typed_seen = set()
    shrunk = set()
    nloops = nested = whole_fail = nexc = 0
    depth_hist = collections.Counter()
    degree_hist = collections.Counter()
    for pi, (label, src) in enumerate(progs):
        strict = (pi % 7 == 3)
        a = analyse(src, strict)
        if a["exc"]:
            if a["exc"][0] in ("ParseError", "Timeout", "CaseTimeout"):
                continue
            nexc += 1
            failing.append({"what": f"raise: LoopAnalysis.run raised {a['exc']}", "sig": ["C08", "raise"] + [str(x) for x in a["exc"]],
                            "input": {"src": src, "strict": strict}, "expected": "a result", "observed": a["exc"]})
        for rec in a["loops"]:
            rec["strict"] = strict
            if rec.get("stage"):
                failing.append({"what": f"raise: {rec['exc']}", "sig": ["C08", "raise"] + [str(x) for x in rec["exc"]],
                                "input": {"src": src, "strict": strict}, "expected": "a result", "observed": rec["exc"]})
                continue
            nloops += 1
            before = len(failing)
            for t in check_loop(rec, src, failing, counts):
                tags[t] += 1
            if rec.get("exc") or "index" not in rec:
                continue
            degree_hist[rec["index"]] += 1
            if rec["infty"]:
                whole_fail += 1
            t = rec.get("typed")
            if t is not None:
                d = loop_depth(t)
                depth_hist[d] += 1
                if d > 1:
                    nested += 1
                key = repr(t)
                if rec["index"] >= 1 and key not in typed_seen:
                    typed_seen.add(key)
                    if rec["index"] <= 5 and len(coq_cases) < ctx.n(300, 3000):
                        coq_cases.append((f"{label} loop {rec['li']}\n{src}", rec))
                if len(samples) < 3 and rec["index"] >= 1 and rec["results"]:
                    samples.append({"loop": rec["code"], "results": {v: [("m" if r["m"] else "w" if r["w"] else "p" if r["p"] else "inf"), r["triple"], r["first"]]
                                                                      for v, r in rec["results"].items()}})
            # shrink new kinds of failures (cheap, bounded)
            for fobj in failing[before:]:
                sig = fobj["sig"]
                if sig[1] in ("dependency-invalid", "early-exit-partial") or tuple(sig) in shrunk:
                    continue
                shrunk.add(tuple(sig))
                try:
                    small = shrink_src(src, lambda s: any(g["sig"] == sig for g in failures_of(s, strict)[1]), budget=25)
                    if small != src:
                        fobj["input"]["shrunk_from"] = src
                        fobj["input"]["src"] = small
                except Exception:
                    pass
    t_search = time.time() - t0
    t1 = time.time()
    if ctx.coq_ok:
        mism += coq_compare("c08", coq_cases)
    else:
        mism.append("model not built: loop-analysis correspondence not run")
    t_corr = time.time() - t1
    if nloops and (whole_fail / nloops > 0.9 or nested == 0 or counts["class_w"] + counts["class_p"] == 0):
        mism.append(f"generator degenerate: loops={nloops} nested={nested} failing={whole_fail} classes={dict(counts)}")
    stats = {"evaluations": nloops, "distinct_nontrivial": len(typed_seen),
             "rule": "generated C functions (loop nests of few variables: while / do-while / counted for, chains, nested loops, if/else in loops; plus the "
                     "shared program stream with loops) analysed by the real LoopAnalysis.run (1 in 7 strict); evaluation = one inspected loop, all its "
                     "variables checked; non-trivial = distinct typed loop statement with >= 1 binary-operation site",
             "samples": samples, "programs": len(progs), "variables_checked": counts["variables"],
             "distribution": {"loops": nloops, "nested_loops": nested, "share_failing_as_a_whole": round(whole_fail / max(1, nloops), 3),
                              "loop_nesting_depth": {str(k): v for k, v in sorted(depth_hist.items())},
                              "degree_histogram": {str(k): v for k, v in sorted(degree_hist.items())},
                              "classes": {k[6:]: v for k, v in sorted(counts.items()) if k.startswith("class_")}},
             "oracle": {"variables_with_calculus_oracle": counts["oracle_checked"], "derivation_valid": counts["derivation_valid"],
                        "outcomes": dict(tags)},
             "coq_model_cases": len(coq_cases), "exceptions": nexc,
             "wall": {"search_s": round(t_search, 1), "correspondence_s": round(t_corr, 1)}}
    return {"failing": failing, "corr_mismatch": mism, "stats": stats}


def loop_depth(s):
    k = s[0]
    if k == "while":
        return 1 + loop_depth(s[2])
    if k == "for":
        return 1 + loop_depth(s[5])
    if k == "if":
        return max([loop_depth(x) for x in s[1] + s[2]] + [0])
    if k == "block":
        return max([loop_depth(x) for x in s[1]] + [0])
    return 0


def replay(ctx, data):
    vlib.import_pymwp()
    inp = data.get("input", data)
    if "src" not in inp:
        import unitcorr
        return unitcorr.replay_unit(inp, "C08")
    want = data.get("sig")
    _, failing, _ = failures_of(inp["src"], bool(inp.get("strict", (inp.get("opts") or {}).get("strict", False))))
    if want:
        for f in failing:
            if f["sig"] == want:
                return f
    return failing[0] if failing else None
