"""C04: the choice representation is the exact complement of the failing choices.

SEARCH   real Choices.generate / build_choices / is_valid / all / first / infinite / intersection against a
         brute-force oracle over dom^n written here (independent of pymwp and of the Coq model):
         exhaustive over ALL sets of well-formed sequences for small (|dom|, n), random beyond.
CORRESP. the Coq model PM.Choice against the real code on generated inputs, compared inside Coq:
         gen    generate: is_valid on every vector of dom^n, all(), first, infinite (semantic)
         build  build_choices on UNsimplified sets (semantic)
         obj    is_valid / all / first / infinite / n_bounds of the model applied to the REAL `valid` lists (exact)
         pass   reduce / reduce_end / unique_sequences / except_one: real (iteration order, result) pairs
                against the model run with that very order (exact, as sets); simplify end to end (semantic)
         inter  intersection on real `valid` lists (exact), incl. n = 0 (regression of fix df06735) and mismatching index
         edge   inputs outside the claimed domain (empty sequence, index >= n): raised exception kinds
"""
import itertools
import json
import time

import vlib

ID = "C04"
LEVEL = "proof"
TRANSLATORS = []          # no generated table is involved in this property
MODEL_TARGETS = ["theories/Choice.vo"]
TECHNIQUE = ("Coq proof over an executable model of choice.py (set iteration order as a universally quantified oracle) "
             "+ exhaustive/random differential runs of the real code against a brute-force oracle and against the model")
EXPLANATION = (
    "Theorems (props/C04.v, no size bound): every simplification pass and simplify as a whole preserve the accepted set "
    "for every iteration order; build_choices as written (lens/iters enumeration, emptiness filter, vect_new/vect_rm) "
    "yields exactly the accepted vectors; is_valid/all/first/infinite of the generated object agree with `accepted`; "
    "generate is total on well-formed input (no IndexError, loops terminate); intersection is exact for every n, "
    "0 included (the pre-df06735 filter is kept as a refuted variant). The model is tied to choice.py by exact per-pass and per-method comparisons and by semantic "
    "comparison of generate/build_choices, all evaluated inside Coq; the real code is searched exhaustively for small sizes.")
ASSUMPTIONS = [
    "domain is a non-empty duplicate-free list of naturals; sequences are non-empty, indices strictly increasing and < n, values in the domain",
    "CPython set iteration order is some permutation of the set (the theorems hold for every permutation oracle)",
]
LEVEL_TEXT = ("Machine-checked proof for all domains, vector lengths and sets of well-formed sequences (17 theorems, closed under the "
              "global context) over an executable model of choice.py, plus exhaustive small-size and random differential checks of the real code.")
LEVEL_NOTE = ("Trusted: Coq kernel; the hand-written model PM.Choice (validated on every run against the real methods, pass by pass, "
              "with the observed set iteration order); the Python brute-force oracle. The empty sequence () is outside the claim.")

# ---------------------------------------------------------------------------
# oracle (independent of pymwp)
# ---------------------------------------------------------------------------


def wf_sequences(dom, n):
    """All well-formed sequences: non-empty, strictly increasing indices < n, values in dom."""
    out = []
    for r in range(1, n + 1):
        for idxs in itertools.combinations(range(n), r):
            for vals in itertools.product(dom, repeat=r):
                out.append(tuple(zip(vals, idxs)))
    return out


def is_wf(dom, n, s):
    return (len(s) > 0 and all(c in dom and 0 <= i < n for c, i in s)
            and all(s[j][1] < s[j + 1][1] for j in range(len(s) - 1)))


def matches(s, v):
    return all(i < len(v) and v[i] == c for c, i in s)


def accepted_set(dom, n, S):
    return {v for v in itertools.product(dom, repeat=n) if not any(matches(s, v) for s in S)}


def canon(S):
    return sorted(tuple(tuple(d) for d in s) for s in S)


def jcase(kind, dom, n, S, S2=None):
    d = {"kind": kind, "dom": list(dom), "n": n, "S": [[list(x) for x in s] for s in canon(S)]}
    if S2 is not None:
        d["S2"] = [[list(x) for x in s] for s in canon(S2)]
    return d


def unj(case):
    S = [tuple(tuple(d) for d in s) for s in case["S"]]
    S2 = [tuple(tuple(d) for d in s) for s in case["S2"]] if "S2" in case else None
    return case["kind"], list(case["dom"]), case["n"], S, S2


# ---------------------------------------------------------------------------
# search: one input against the oracle
# ---------------------------------------------------------------------------

CASE_TIMEOUT = 20.0      # seconds for one call into the real code (a hang is a failure, not a stuck check)
_TMO = [CASE_TIMEOUT]
MAX_PRODUCT = 2500       # random inputs whose cross product (after simplify; before, for build_choices) is larger are skipped:
                         # the maximality filter of build_choices is quadratic in it


def _C():
    vlib.import_pymwp()
    from pymwp.choice import Choices
    return Choices


def T(fn, *a):
    return vlib.with_timeout(fn, _TMO[0], *a)


def check_object(c, dom, n, acc, what):
    """Compare a real Choices object with the expected accepted set. Returns (tag, expected, observed) or None."""
    vs = list(itertools.product(dom, repeat=n))
    try:
        got = {v for v in vs if c.is_valid(*v)}
    except Exception as e:
        return (what + ":is_valid-raises", "no exception", vlib.exc_sig(e))
    if got != acc:
        extra, missing = sorted(got - acc), sorted(acc - got)
        tag = "is_valid-accepts-rejected" if extra else "is_valid-rejects-accepted"
        return (what + ":" + tag, {"accepted": sorted(acc)[:20]}, {"extra": extra[:5], "missing": missing[:5]})
    try:
        al = list(c.all())
    except Exception as e:
        return (what + ":all-raises", "no exception", vlib.exc_sig(e))
    if set(al) != acc:
        return (what + ":all-differs", sorted(acc)[:20], sorted(set(al) ^ acc)[:10])
    try:
        inf = bool(c.infinite)
    except Exception as e:
        return (what + ":infinite-raises", "no exception", vlib.exc_sig(e))
    if inf != (len(acc) == 0):
        return (what + ":infinite-wrong", len(acc) == 0, inf)
    try:
        f = c.first
    except Exception as e:
        return (what + ":first-raises", "a vector or None", vlib.exc_sig(e))
    if (f is None) != (len(acc) == 0) or (f is not None and tuple(f) not in acc):
        return (what + ":first-wrong", "None" if not acc else "an accepted vector", repr(f))
    # a value outside the domain is never accepted
    if n > 0 and acc:
        bad = max(dom) + 1
        v = list(sorted(acc)[0])
        v[n // 2] = bad
        if c.is_valid(*v):
            return (what + ":is_valid-accepts-out-of-domain", False, True)
    return None


def check_case(case):
    """Run one input; returns a failing-record dict or None."""
    Choices = _C()
    kind, dom, n, S, S2 = unj(case)

    def fail(tag, exp, obs):
        return {"what": f"{tag}", "sig": ["C04", tag.split(":", 1)[-1] if kind == "generate" else tag],
                "input": case, "expected": exp, "observed": obs}

    acc = accepted_set(dom, n, S)
    if kind in ("generate", "intersection"):
        try:
            c1 = T(Choices.generate, list(dom), n, set(S))
        except Exception as e:
            return fail("generate:raises", "a Choices object", vlib.exc_sig(e))
        r = check_object(c1, dom, n, acc, "generate")
        if r:
            return fail(*r)
        if getattr(c1, "index", None) != n:
            return fail("generate:index-wrong", n, c1.index)
    if kind == "build":
        try:
            valid = T(Choices.build_choices, list(dom), n, set(S))
            c1 = Choices(valid, n)
        except Exception as e:
            return fail("build:raises", "a list of vectors", vlib.exc_sig(e))
        r = check_object(c1, dom, n, acc, "build")
        if r:
            return fail(*r)
    if kind == "intersection":
        acc2 = accepted_set(dom, n, S2)
        try:
            c2 = T(Choices.generate, list(dom), n, set(S2))
            c = T(Choices.intersection, c1, c2)
        except Exception as e:
            return fail("intersection:raises", "a Choices object", vlib.exc_sig(e))
        r = check_object(c, dom, n, acc & acc2, "intersection")
        if r:
            return fail(*r)
    return None


def shrink(case, budget=25.0):
    """Greedy shrinking of a failing input (any failure counts), within a time budget."""
    deadline = time.time() + budget

    def fails(c):
        if time.time() > deadline:
            return False
        _TMO[0] = 1.5
        try:
            return check_case(c) is not None
        except Exception:
            return False
        finally:
            _TMO[0] = CASE_TIMEOUT
    cur = json.loads(json.dumps(case))
    changed = True
    while changed:
        changed = False
        for key in ("S", "S2"):
            if key not in cur:
                continue
            # drop a sequence
            i = 0
            while i < len(cur[key]):
                t = dict(cur); t[key] = cur[key][:i] + cur[key][i + 1:]
                if fails(t):
                    cur = t; changed = True
                else:
                    i += 1
            # drop a delta
            for i in range(len(cur[key])):
                j = 0
                while len(cur[key][i]) > 1 and j < len(cur[key][i]):
                    s = cur[key][i][:j] + cur[key][i][j + 1:]
                    t = dict(cur); t[key] = cur[key][:i] + [s] + cur[key][i + 1:]
                    t[key] = [list(x) for x in {tuple(map(tuple, q)) for q in t[key]}]
                    t[key] = [[list(d) for d in q] for q in sorted(map(lambda q: tuple(map(tuple, q)), t[key]))]
                    if len(t[key]) == len(cur[key]) and fails(t):
                        cur = t; changed = True
                    else:
                        j += 1
        # smaller vector length
        mx = max([d[1] for k in ("S", "S2") if k in cur for s in cur[k] for d in s], default=-1)
        if cur["n"] > max(mx + 1, 1):
            t = dict(cur); t["n"] = cur["n"] - 1
            if fails(t):
                cur = t; changed = True
        # smaller domain
        mv = max([d[0] for k in ("S", "S2") if k in cur for s in cur[k] for d in s], default=-1)
        if len(cur["dom"]) > 1 and cur["dom"][-1] > mv:
            t = dict(cur); t["dom"] = cur["dom"][:-1]
            if fails(t):
                cur = t; changed = True
    return cur


# ---------------------------------------------------------------------------
# search: exhaustive workers (fork pool)
# ---------------------------------------------------------------------------

def _obj_ok(c, vs, acc, n):
    return (all(c.is_valid(*v) == (v in acc) for v in vs) and set(c.all()) == acc
            and bool(c.infinite) == (not acc) and c.index == n
            and ((c.first is None) if not acc else (c.first is not None and tuple(c.first) in acc)))


def _exh_worker(job):
    """job = (k, n, masks): sets of well-formed sequences of range(k)^n given as bit masks (a range or a list).
    generate on every set, build_choices (unsimplified) on every third. Stops early once failures are found."""
    k, n, masks = job
    Choices = _C()
    dom = list(range(k))
    seqs = wf_sequences(dom, n)
    vs = list(itertools.product(dom, repeat=n))
    mt = [[matches(s, v) for v in vs] for s in seqs]
    fails, cnt, ninf, nbuild = [], 0, 0, 0
    for mask in masks:
        idx = [j for j in range(len(seqs)) if mask >> j & 1]
        S = [seqs[j] for j in idx]
        acc = {v for q, v in enumerate(vs) if not any(mt[j][q] for j in idx)}
        cnt += 1
        ninf += (not acc)
        bad, hung = None, False
        for kind in ("generate", "build"):
            if kind == "build":
                if mask % 3:
                    continue
                nbuild += 1
            try:
                c = (T(Choices.generate, list(dom), n, set(S)) if kind == "generate"
                     else Choices(T(Choices.build_choices, list(dom), n, set(S)), n))
                ok = _obj_ok(c, vs, acc, n)
            except vlib.CaseTimeout:
                ok, hung = False, True
            except Exception:
                ok = False
            if not ok:
                bad = kind
                break
        if bad:
            fails.append(jcase(bad, dom, n, S))
            if hung or len(fails) >= 3:
                break
    return fails, cnt, ninf, nbuild


def _exh_inter_worker(job):
    k, n, masks = job
    Choices = _C()
    dom = list(range(k))
    seqs = wf_sequences(dom, n)
    fails, cnt = [], 0
    gen = {}

    def g(m):
        if m not in gen:
            S = [seqs[j] for j in range(len(seqs)) if m >> j & 1]
            gen[m] = (S, accepted_set(dom, n, S), T(Choices.generate, list(dom), n, set(S)))
        return gen[m]
    vs = list(itertools.product(dom, repeat=n))
    for (m1, m2) in masks:
        cnt += 1
        try:
            S1, a1, c1 = g(m1)
            S2, a2, c2 = g(m2)
        except Exception:       # generate itself fails or hangs: reported by the generate search; stop this job
            S1 = [seqs[j] for j in range(len(seqs)) if m1 >> j & 1]
            S2 = [seqs[j] for j in range(len(seqs)) if m2 >> j & 1]
            fails.append(jcase("intersection", dom, n, S1, S2))
            break
        acc = a1 & a2
        try:
            ok = _obj_ok(Choices.intersection(c1, c2), vs, acc, n)
        except Exception:
            ok = False
        if not ok:
            fails.append(jcase("intersection", dom, n, S1, S2))
            if len(fails) >= 3:
                break
    return fails, cnt


# ---------------------------------------------------------------------------
# random generators
# ---------------------------------------------------------------------------

def rand_seq(rng, dom, n, maxlen=3):
    r = min(n, rng.choice([1, 1, 2, 2, 2, 3, 3, 4][:2 + 2 * maxlen]))
    r = max(1, min(r, n))
    idxs = sorted(rng.sample(range(n), r))
    return tuple((rng.choice(dom), i) for i in idxs)


def rand_set(rng, dom, n, maxsize=12):
    """Structured random set of well-formed sequences: random sequences plus, with some probability, families that
    make reduce / reduce_end / except_one / unique_sequences fire."""
    S = set()
    target = rng.randint(0, maxsize)
    tries = 0
    while len(S) < target and tries < 4 * maxsize:
        tries += 1
        r = rng.random()
        if r < 0.45 or n < 2:
            S.add(rand_seq(rng, dom, n))
        elif r < 0.60:      # family differing on the first value (reduce)
            base = rand_seq(rng, dom, n)
            if len(base) >= 2:
                for c in rng.sample(dom, rng.choice([len(dom), len(dom), max(1, len(dom) - 1)])):
                    S.add(((c, base[0][1]),) + base[1:])
        elif r < 0.75:      # family differing on the last value (reduce_end)
            base = rand_seq(rng, dom, n)
            if len(base) >= 2:
                for c in rng.sample(dom, rng.choice([len(dom), len(dom), max(1, len(dom) - 1)])):
                    S.add(base[:-1] + ((c, base[-1][1]),))
        elif r < 0.90:      # all-but-one singletons at one index (except_one) + a longer path through it
            i = rng.randrange(n)
            keep = rng.choice(dom)
            for c in dom:
                if c != keep and rng.random() < 0.9:
                    S.add(((c, i),))
            s = rand_seq(rng, dom, n)
            s = tuple(sorted(set([d for d in s if d[1] != i] + [(keep, i)]), key=lambda d: d[1]))
            S.add(s)
        else:               # a superset of an existing sequence (unique_sequences)
            if S:
                b = rng.choice(sorted(S))
                free = [i for i in range(n) if i not in [d[1] for d in b]]
                if free:
                    i = rng.choice(free)
                    S.add(tuple(sorted(b + ((rng.choice(dom), i),), key=lambda d: d[1])))
    S = sorted(S)
    assert all(is_wf(dom, n, s) for s in S), (dom, n, S)
    rng.shuffle(S)
    return S[:maxsize]


def rand_dom(rng, k=None):
    k = k or rng.choice([1, 2, 2, 3, 3, 3, 4])
    if rng.random() < 0.8:
        return list(range(k))
    return rng.sample(range(0, 9), k)      # unsorted, non-contiguous


def prod_len_after_simplify(Choices, dom, S):
    simp = T(Choices.simplify, list(dom), set(S))
    p = 1
    for s in simp:
        p *= len(s)
    return p


# ---------------------------------------------------------------------------
# Coq literal printers
# ---------------------------------------------------------------------------

def q_nats(xs):
    return "[" + "; ".join(str(int(x)) for x in xs) + "]"


def q_seq(s):
    return "[" + "; ".join(f"({int(c)},{int(i)})" for c, i in s) + "]"


def q_seqs(S):
    return "[" + "; ".join(q_seq(s) for s in S) + "]"


def q_box(b):
    return "[" + "; ".join(q_nats(e) for e in b) + "]"


def q_boxes(bs):
    return "[" + "; ".join(q_box(b) for b in bs) + "]"


def q_bools(bs):
    return "[" + "; ".join("true" if b else "false" for b in bs) + "]"


def q_b(b):
    return "true" if b else "false"


HEADER = """From Coq Require Import List Arith Bool ZArith.
From PM Require Import Choice.
Import ListNotations.
Definition fuel := 300.
Definition vec_eqb := list_eqb Nat.eqb.
Definition bools_eqb := list_eqb Bool.eqb.
Definition vecs_eqb := list_eqb vec_eqb.
Fixpoint bad {A} (f : A -> bool) (n : nat) (l : list A) : list nat :=
  match l with [] => [] | x :: t => if f x then bad f (S n) t else n :: bad f (S n) t end.
Definition sem_ok (c : choices) (dom : list nat) (n : nat) (isv : list bool) (inf : bool) (fnone : bool) : bool :=
  let vs := all_vectors dom n in
  bools_eqb (map (is_valid c) vs) isv
  && forallb (fun vb : list nat * bool => if snd vb then memb vec_eqb (fst vb) (all c) else negb (memb vec_eqb (fst vb) (all c))) (combine vs isv)
  && forallb (fun v => memb vec_eqb v vs) (all c)
  && Bool.eqb (infinite c) inf
  && match first c with
     | Ok None => fnone
     | Ok (Some v) => negb fnone && existsb (fun vb : list nat * bool => snd vb && vec_eqb (fst vb) v) (combine vs isv)
     | Err _ => false
     end.
"""


def shards(cases, size=450):
    return [cases[i:i + size] for i in range(0, len(cases), size)] or [[]]


# ---------------------------------------------------------------------------
# observing the real code for the correspondence streams
# ---------------------------------------------------------------------------

HANGS = [0]


def observe_generate(Choices, dom, n, S_order, build_only=False):
    """(raised?, isv, inf, first_none) of the real code; S_order = list (the set is rebuilt from it)."""
    if HANGS[0] >= 3:
        return "CaseTimeout", None, None, None, None
    try:
        if build_only:
            c = Choices(T(Choices.build_choices, list(dom), n, set(S_order)), n)
        else:
            c = T(Choices.generate, list(dom), n, set(S_order))
        isv = [bool(c.is_valid(*v)) for v in itertools.product(dom, repeat=n)]
        inf = bool(c.infinite)
    except vlib.CaseTimeout:
        HANGS[0] += 1
        return "CaseTimeout", None, None, None, None
    except Exception as e:
        return type(e).__name__, None, None, None, None
    try:
        fnone = c.first is None
    except Exception:
        fnone = "raises"        # only possible outside the claimed domain (edge stream ignores `first`)
    return None, isv, inf, fnone, c


def trace_simplify(Choices, dom, S):
    """Re-run the loop of Choices.simplify with the REAL static methods, recording for each call the
    iteration order of the set just before the call, the returned value and the resulting set."""
    seqs = set(S)
    steps = []

    def call(name, fn, mutates):
        nonlocal seqs
        before = list(seqs)
        try:
            r = fn(list(dom), seqs) if name != "unique_sequences" else fn(seqs)
        except Exception as e:
            steps.append((name, before, "raise:" + type(e).__name__, None))
            raise
        if mutates:
            after = list(seqs)
            steps.append((name, before, bool(r), after))
            return r
        seqs = r
        steps.append((name, before, None, list(r)))
        return r
    try:
        for _ in range(200):
            len_before = len(seqs)
            while call("reduce", Choices.reduce, True):
                pass
            while call("reduce_end", Choices.reduce_end, True):
                pass
            call("unique_sequences", Choices.unique_sequences, False)
            call("except_one", Choices.except_one, False)
            if len_before == len(seqs) or len(seqs) == 0:
                break
    except Exception:
        return steps, None
    return steps, list(seqs)


# ---------------------------------------------------------------------------
# run
# ---------------------------------------------------------------------------

def search(ctx):
    Choices = _C()
    rng = ctx.rng
    failing = []
    st = {"exhaustive": {}, "random": {}, "phase_seconds": {}}
    t0 = time.time()
    ev = 0
    distinct = set()
    samples = []

    def record(case):
        if len(failing) >= 8:
            return
        r = check_case(case)
        if not r:
            return              # not reproducible in this process (should not happen: everything is deterministic)
        hang = isinstance(r.get("observed"), list) and r["observed"][:1] == ["CaseTimeout"]
        if not hang and len(failing) < 3:
            small = shrink(case)
            r2 = check_case(small)
            if r2:
                r2["shrunk_from"] = case
                r = r2
        if hang:
            r["what"] += f" (no result within {CASE_TIMEOUT}s)"
        failing.append(r)

    # corpus first
    for case in vlib.corpus(ID):
        ev += 1
        try:
            r = check_case(case)
        except Exception as e:
            r = {"what": "corpus case raised in harness", "sig": ["C04", "harness"], "input": case, "expected": None, "observed": repr(e)}
        if r:
            failing.append(r)

    # -- exhaustive: all sets of well-formed sequences
    configs = [(1, 0, None), (2, 0, None), (3, 0, None), (1, 1, None), (1, 2, None), (1, 3, None), (2, 1, None), (3, 1, None), (4, 1, None), (2, 2, None), (3, 2, None),
               (2, 3, ctx.n(5, 6)), (3, 3, ctx.n(2, 4)), (4, 2, ctx.n(3, 5))]
    jobs = []
    for k, n, card in configs:
        m = len(wf_sequences(list(range(k)), n))
        if card is None:
            total = 1 << m
            step = max(1, total // 64)
            for lo in range(0, total, step):
                jobs.append((k, n, range(lo, min(total, lo + step))))
        else:               # subsets of bounded cardinality
            combos = []
            for r in range(0, card + 1):
                for cmb in itertools.combinations(range(m), r):
                    mask = 0
                    for j in cmb:
                        mask |= 1 << j
                    combos.append(mask)
            for i in range(0, len(combos), 2000):
                jobs.append((k, n, combos[i:i + 2000]))
    res = vlib.pool_map(_exh_worker, jobs, chunksize=1)
    for (job, (fails, cnt, ninf, nbuild)) in zip(jobs, res):
        key = f"dom{job[0]}_n{job[1]}"
        e = st["exhaustive"].setdefault(key, {"sets": 0, "infinite": 0, "build_direct": 0})
        e["sets"] += cnt; e["infinite"] += ninf; e["build_direct"] += nbuild
        ev += cnt + nbuild
        for c in fails:
            record(c)
    n_exh = sum(e["sets"] for e in st["exhaustive"].values())
    for k, n, card in configs:
        st["exhaustive"][f"dom{k}_n{n}"]["max_cardinality"] = card if card is not None else "all subsets"

    st["phase_seconds"]["exhaustive_generate_build"] = round(time.time() - t0, 1)
    t0 = time.time()
    if len(failing) >= 3:       # enough concrete failing inputs: do not spend the budget on the other phases
        st["aborted_early"] = "failures found in the exhaustive generate/build phase"
        return failing, {"evaluations": ev, "distinct_nontrivial": n_exh, "rule": "aborted after the exhaustive phase (failures found)",
                         "samples": [], "search": st}
    # -- exhaustive intersections: |dom|=2,n=2 all 256x256 pairs; sampled pairs for |dom|=3,n=2
    pairs = [(a, b) for a in range(256) for b in range(a, 256)]
    ijobs = [(2, 2, pairs[i:i + 2100]) for i in range(0, len(pairs), 2100)]
    ijobs += [(k, 0, [(0, 0)]) for k in (1, 2, 3)] + [(k, 1, [(a, b) for a in range(1 << k) for b in range(1 << k)]) for k in (1, 2, 3)]
    m32 = 1 << 15
    np32 = ctx.n(6000, 60000)
    p32 = [(rng.randrange(m32), rng.randrange(m32)) for _ in range(np32)]
    ijobs += [(3, 2, p32[i:i + 1000]) for i in range(0, len(p32), 1000)]
    p23 = []
    seq23 = len(wf_sequences([0, 1], 3))
    for _ in range(ctx.n(3000, 30000)):
        def rm():
            m = 0
            for j in rng.sample(range(seq23), rng.randint(0, 5)):
                m |= 1 << j
            return m
        p23.append((rm(), rm()))
    ijobs += [(2, 3, p23[i:i + 1000]) for i in range(0, len(p23), 1000)]
    n_inter = 0
    for fails, cnt in vlib.pool_map(_exh_inter_worker, ijobs, chunksize=1):
        n_inter += cnt
        for c in fails:
            record(c)
    ev += n_inter
    st["exhaustive"]["intersection_pairs"] = {"dom2_n2": len(pairs), "dom3_n2_sampled": len(p32), "dom2_n3_sampled": len(p23)}

    st["phase_seconds"]["intersection_pairs"] = round(time.time() - t0, 1)
    t0 = time.time()
    # -- random beyond: n <= 6, |S| <= 12
    nrand = ctx.n(4000, 60000)
    sizes, ninf, skipped, kinds = {}, 0, 0, {"generate": 0, "build": 0, "intersection": 0}
    hist_n, hist_dom, simp_changed = {}, {}, 0
    cases = []
    for t in range(nrand):
        dom = rand_dom(rng)
        n = rng.randint(1, 6)
        S = rand_set(rng, dom, n)
        kind = rng.choice(["generate", "generate", "build", "intersection"])
        S2 = rand_set(rng, dom, n, 8) if kind == "intersection" else None
        cases.append((kind, dom, n, S, S2))
    chunks = [cases[i:i + 40] for i in range(0, len(cases), 40)]
    for out in vlib.pool_map(_rand_worker, chunks, chunksize=1):
        for (case, skip, nacc, total, changed, r) in out:
            if skip:
                skipped += 1
                continue
            ev += 1
            kind, n, nS, nd = case["kind"], case["n"], len(case["S"]), len(case["dom"])
            kinds[kind] += 1
            distinct.add(json.dumps(case, sort_keys=True))
            ninf += (nacc == 0)
            sizes[nS] = sizes.get(nS, 0) + 1
            hist_n[n] = hist_n.get(n, 0) + 1
            hist_dom[nd] = hist_dom.get(nd, 0) + 1
            simp_changed += changed
            if len(samples) < 4 and nS >= 3 and 0 < nacc < total and ev % 7 == 0:
                samples.append({"input": case, "accepted_vectors": nacc, "of": total})
            if r:
                record(case)
    st["phase_seconds"]["random"] = round(time.time() - t0, 1)
    done = max(1, sum(kinds.values()))
    st["random"] = {"cases": done, "skipped_product_too_large": skipped, "kinds": kinds,
                    "share_infinite": round(ninf / done, 3), "share_simplify_changed_set": round(simp_changed / done, 3),
                    "set_size_histogram": dict(sorted(sizes.items())), "n_histogram": dict(sorted(hist_n.items())),
                    "domain_size_histogram": dict(sorted(hist_dom.items()))}
    if done > 200 and (ninf / done > 0.9 or simp_changed / done < 0.05):
        failing.append({"what": "generator degenerate", "sig": ["C04", "generator-degenerate"], "input": st["random"],
                        "expected": "<=90% infinite, >=5% simplifiable", "observed": st["random"]})

    # -- history: the SAME set of sequences under different domains / lengths and repeated calls in ONE process
    #    (the property is about the arguments of each call; anything remembered between calls must not matter)
    t0 = time.time()
    nh = 0
    for _ in range(ctx.n(120, 1500)):
        n = rng.randint(1, 4)
        S = rand_set(rng, [0, 1], n, 6)
        for dom, dn in (([0, 1], 0), ([0, 1, 2], 0), ([0, 1], 1), ([1, 0, 2, 3], 0), ([0, 1, 2], 2), ([0, 1, 2], 0)):
            case = jcase("generate" if dn != 1 else "build", dom, n + dn, S)      # the same sequences at another degree, too
            nh += 1
            ev += 1
            try:
                r = check_case(case)
            except Exception as e:
                r = {"what": "generate:raises", "sig": ["C04", "raises"], "input": case, "observed": vlib.exc_sig(e)}
            if r:
                r["what"] += " (in a history: same sequences generated before under another domain in this process)"
                r["sig"] = ["C04", "history-dependent"]
                r["input"] = {"history": [jcase("generate", d, n, S) for d in ([0, 1], [0, 1, 2], [0, 1], [1, 0, 2, 3], [0, 1, 2])]}
                if len(failing) < 8:
                    failing.append(r)
                break
    st["history"] = {"calls": nh, "seconds": round(time.time() - t0, 1)}

    # -- outside the claimed domain: recorded, not flagged
    outside = []
    for (dom, n, S) in [([0, 1], 2, [(), ((0, 0), (1, 1))]), ([0, 1], 2, [(), ((0, 0),)]), ([0, 1], 0, [()]), ([0, 1], 2, [()]),
                        ([0, 1], 1, [((0, 1),)]), ([0, 0, 1], 2, [((0, 0),), ((1, 0),)]), ([], 2, [])]:
        try:
            c = T(Choices.generate, list(dom), n, set(S))
            acc = accepted_set(dom, n, S)
            try:
                f = c.first
            except Exception as e:
                f = "raises " + type(e).__name__
            obs = {"valid": c.valid, "infinite": bool(c.infinite), "first": repr(f), "accepted_by_oracle": len(acc)}
        except Exception as e:
            obs = {"raises": vlib.exc_sig(e)}
        outside.append({"dom": dom, "n": n, "S": [list(map(list, s)) for s in S], "observed": obs})
    st["outside_claimed_domain"] = {"note": "empty sequence () [finding D9], index >= n, duplicate or empty domain: not well-formed, recorded only",
                                    "cases": outside}

    stats = {"evaluations": ev, "distinct_nontrivial": n_exh + len(distinct),
             "rule": "search: every set of well-formed sequences for the (|dom|, n) listed under `exhaustive` (cardinality-bounded where stated) "
                     "+ all 32896 unordered pairs for intersection at |dom|=2,n=2 + random structured sets (n<=6, |S|<=12, |dom|<=4); "
                     "each compared on every vector of dom^n (is_valid, all, first, infinite); distinct_nontrivial = exhaustive sets + distinct random inputs",
             "samples": samples, "search": st}
    return failing, stats


def _rand_worker(chunk):
    Choices = _C()
    out = []
    nfail = 0
    for (kind, dom, n, S, S2) in chunk:
        try:
            p = prod_len_after_simplify(Choices, dom, S)
            if kind == "build":
                p = 1
                for s in S:
                    p *= len(s)
            if S2 is not None:
                p = max(p, prod_len_after_simplify(Choices, dom, S2))
        except Exception:
            p = 0       # let check_case report the exception
        case = jcase(kind, dom, n, S, S2)
        if p > MAX_PRODUCT:
            out.append((case, True, 0, 0, 0, None))
            continue
        r = check_case(case)
        acc = accepted_set(dom, n, S)
        try:
            changed = int(set(T(Choices.simplify, list(dom), set(S))) != set(S))
        except Exception:
            changed = 0
        out.append((case, False, len(acc), len(dom) ** n, changed, bool(r)))
        nfail += bool(r)
        if nfail >= 2:
            break
    return out


def correspondence(ctx):
    Choices = _C()
    rng = ctx.rng
    mism = []
    st = {}
    HANGS[0] = 0
    t_start = time.time()
    if not ctx.coq_ok:
        return ["model not built: Choice correspondence not run"], {"cases": 0}
    jobs = []       # (name, text, describe(index) -> str)
    desc = {}

    def add(stream, cases_txt, typ, chk, descs):
        for si, (ct, ds) in enumerate(zip(shards(cases_txt), shards(descs))):
            name = f"c04_{stream}_{si}"
            body = chk + f"Definition cases : list ({typ}) :=\n " + vlib.cq_list(ct) + ".\nEval vm_compute in bad chk 0 cases.\n"
            jobs.append((name, body))
            desc[name] = (stream, ds)

    # ---- inputs shared by the streams
    inputs = []
    for k, n in ((2, 2), (3, 2), (2, 3), (3, 1), (1, 2)):
        dom = list(range(k))
        seqs = wf_sequences(dom, n)
        for _ in range(ctx.n(25, 120)):
            S = rng.sample(seqs, rng.randint(0, min(len(seqs), 7)))
            inputs.append((dom, n, S))
    for _ in range(ctx.n(260, 1500)):
        dom = rand_dom(rng)
        n = rng.randint(1, 5)
        inputs.append((dom, n, rand_set(rng, dom, n, 9)))
    inputs.append(([0, 1, 2], 0, []))
    inputs.append(([0, 1, 2, 3], 3, [((0, 0), (0, 1)), ((0, 0), (1, 1), (3, 2)), ((1, 0), (1, 1), (3, 2)), ((2, 0), (1, 1), (3, 2)), ((3, 0), (1, 1), (3, 2))]))

    def small(dom, n, S, build):
        if HANGS[0] >= 3:
            return True
        try:
            if build:
                p = 1
                for s in S:
                    p *= len(s)
            else:
                p = prod_len_after_simplify(Choices, dom, S)
        except vlib.CaseTimeout:
            HANGS[0] += 1
            return True
        except Exception:
            return True
        return p <= 300 and len(dom) ** n <= 1100

    # ---- gen / build (semantic) and obj (exact on the real valid lists)
    gen_c, gen_d, bld_c, bld_d, obj_c, obj_d = [], [], [], [], [], []
    real_objs = []
    for (dom, n, S) in inputs:
        S_order = list(set(S))
        for build in (False, True):
            if not small(dom, n, S, build):
                continue
            if build and rng.random() < 0.5:
                continue
            err, isv, inf, fnone, c = observe_generate(Choices, dom, n, S_order, build)
            if err == "CaseTimeout":
                if HANGS[0] <= 3:
                    mism.append(f"gen stream: real code does not terminate within {CASE_TIMEOUT}s on {jcase('build' if build else 'generate', dom, n, S)}")
                continue
            if fnone == "raises":
                mism.append(f"gen stream: real `first` raised on {jcase('generate', dom, n, S)}")
                continue
            exp = "None" if err else f"(Some ({q_bools(isv)}, {q_b(inf)}, {q_b(fnone)}))"
            txt = f"({q_nats(dom)}, {n}, {q_seqs(S_order)}, {exp})"
            d = json.dumps(jcase("build" if build else "generate", dom, n, S_order))
            (bld_c if build else gen_c).append(txt)
            (bld_d if build else gen_d).append(d)
            if c is not None and not build:
                real_objs.append((dom, n, c))
    typ = "list nat * nat * list dseq * option (list bool * bool * bool)"
    chk_gen = ("Definition chk (x : " + typ + ") : bool :=\n  let '(dom, n, sq, e) := x in\n"
               "  match generate ord_id pick_head fuel dom n sq, e with\n"
               "  | Ok c, Some (isv, inf, fnone) => sem_ok c dom n isv inf fnone\n  | Err IndexError, None => true\n  | _, _ => false end.\n")
    chk_bld = ("Definition chk (x : " + typ + ") : bool :=\n  let '(dom, n, sq, e) := x in\n"
               "  match build_choices pick_head dom n sq, e with\n"
               "  | Ok v, Some (isv, inf, fnone) => sem_ok (mk_choices v (Z.of_nat n)) dom n isv inf fnone\n  | Err IndexError, None => true\n  | _, _ => false end.\n")
    add("gen", gen_c, typ, chk_gen, gen_d)
    add("build", bld_c, typ, chk_bld, bld_d)

    # obj: model methods on the REAL valid lists, exact
    extra_objs = [([0, 1], 2, Choices([[[0, 1], []]], 2)), ([0, 1], 2, Choices([], 0)), ([0, 1], 2, Choices([], -1)),
                  ([0, 1], 2, Choices([[[0], [1]], [[1], [0, 1]]])), ([0, 1, 2], 3, Choices([[[0, 1, 2], [0, 1, 2], [2]]]))]
    for (dom, n, c) in real_objs[:ctx.n(350, 1500)] + extra_objs:
        qs = [list(v) for v in itertools.product(dom, repeat=n)][:200]
        qs += [v[:-1] for v in qs[:20] if v] + [v + [dom[0]] for v in qs[:5]] + [[max(dom) + 1] * n]
        try:
            isv = [bool(c.is_valid(*v)) for v in qs]
            al = [list(v) for v in c.all()]
            inf = bool(c.infinite)
            nb = c.n_bounds
            try:
                f = c.first
                ftxt = "(Ok None)" if f is None else f"(Ok (Some {q_nats(f)}))"
            except IndexError:
                ftxt = "(Err IndexError)"
        except Exception as e:
            mism.append(f"obj stream: real method raised {vlib.exc_sig(e)} on valid={c.valid}")
            continue
        if len(al) > 1500:
            continue
        idx = c.index
        ztxt = f"({idx})%Z"
        obj_c.append(f"({q_boxes(c.valid)}, {ztxt}, [{'; '.join(q_nats(v) for v in qs)}], {q_bools(isv)}, [{'; '.join(q_nats(v) for v in al)}], {ftxt}, {q_b(inf)}, {nb})")
        obj_d.append(json.dumps({"valid": c.valid, "index": idx}))
    typ_o = "list box * Z * list (list nat) * list bool * list (list nat) * res (option (list nat)) * bool * nat"
    chk_obj = ("Definition res_eqb (a b : res (option (list nat))) : bool := match a, b with\n"
               "  | Ok None, Ok None => true | Ok (Some x), Ok (Some y) => vec_eqb x y | Err IndexError, Err IndexError => true | _, _ => false end.\n"
               "Definition chk (x : " + typ_o + ") : bool :=\n  let '(v, i, qs, isv, al, f, inf, nb) := x in let c := mkC v i in\n"
               "  bools_eqb (map (is_valid c) qs) isv && vecs_eqb (all c) al && res_eqb (first c) f && Bool.eqb (infinite c) inf && (n_bounds c =? nb).\n")
    add("obj", obj_c, typ_o, chk_obj, obj_d)

    # ---- passes: real (order, result) pairs
    pass_c, pass_d, simp_c, simp_d = [], [], [], []
    fired = {"reduce": 0, "reduce_end": 0, "unique_sequences": 0, "except_one": 0}
    calls = {"reduce": 0, "reduce_end": 0, "unique_sequences": 0, "except_one": 0}
    simp_exact = 0
    pid = {"reduce": 0, "reduce_end": 1, "unique_sequences": 2, "except_one": 3}
    seen = set()
    for (dom, n, S) in inputs:
        if n == 0:
            continue
        if HANGS[0] >= 3:
            break
        try:
            steps, final = T(trace_simplify, Choices, dom, S)
        except vlib.CaseTimeout:
            HANGS[0] += 1
            mism.append(f"pass stream: real simplification passes do not terminate on {jcase('simplify', dom, n, S)}")
            continue
        for (name, before, ret, after) in steps:
            key = (name, tuple(dom), tuple(before))
            if key in seen:
                continue
            seen.add(key)
            calls[name] += 1
            changed = after is not None and set(after) != set(before)
            fired[name] += bool(changed)
            if not changed and calls[name] > 60 and rng.random() < 0.8:
                continue        # keep the stream biased to calls that do something
            if isinstance(ret, str):
                exp = "None"
            else:
                exp = f"(Some ({q_b(bool(ret))}, {q_seqs(after)}))"
            pass_c.append(f"({pid[name]}, {q_nats(dom)}, {q_seqs(before)}, {exp})")
            pass_d.append(json.dumps({"pass": name, "dom": dom, "before_in_iteration_order": before, "returned": ret, "after": after}))
        if final is not None and len(dom) ** n <= 1100:
            real = list(T(Choices.simplify, list(dom), set(S)))
            simp_c.append(f"({q_nats(dom)}, {n}, {q_seqs(list(set(S)))}, {q_seqs(real)})")
            simp_d.append(json.dumps(jcase("simplify", dom, n, S)))
    typ_p = "nat * list nat * list dseq * option (bool * list dseq)"
    chk_pass = ("Definition seqs_eqb := set_eqb dseq_eqb.\n"
                "Definition chk (x : " + typ_p + ") : bool :=\n  let '(p, dom, before, e) := x in\n"
                "  let red (r : res (option (list dseq))) := match r, e with\n"
                "     | Ok None, Some (false, after) => seqs_eqb before after\n     | Ok (Some s), Some (true, after) => seqs_eqb s after\n"
                "     | Err IndexError, None => true | _, _ => false end in\n"
                "  match p with\n  | 0 => red (reduce dom before)\n  | 1 => red (reduce_end dom before)\n"
                "  | 2 => match e with Some (_, after) => seqs_eqb (unique_sequences before) after && (length (unique_sequences before) =? length after) | None => false end\n"
                "  | _ => match e with Some (_, after) => seqs_eqb (except_one dom before) after && (length (except_one dom before) =? length after) | None => false end\n  end.\n")
    add("pass", pass_c, typ_p, chk_pass, pass_d)
    typ_s = "list nat * nat * list dseq * list dseq"
    chk_simp = ("Definition chk (x : " + typ_s + ") : bool :=\n  let '(dom, n, sq, real) := x in\n"
                "  match simplify ord_id fuel dom sq with\n  | Ok m => forallb (fun v => Bool.eqb (acceptedb m v) (acceptedb real v) && Bool.eqb (acceptedb m v) (acceptedb sq v)) (all_vectors dom n)\n"
                "  | Err _ => false end.\n")
    add("simp", simp_c, typ_s, chk_simp, simp_d)

    # ---- intersection on real valid lists (exact)
    int_c, int_d = [], []
    objs = real_objs[:]
    rng.shuffle(objs)
    bykey = {}
    for (dom, n, c) in objs:
        bykey.setdefault((tuple(dom), n), []).append(c)
    for (dom, n), cs in bykey.items():
        for a, b in zip(cs, cs[1:] + cs[:1]):
            if len(int_c) >= ctx.n(300, 1400) or len(a.valid) * len(b.valid) > 400:
                continue
            c = Choices.intersection(a, b)
            int_c.append(f"({q_boxes(a.valid)}, ({a.index})%Z, {q_boxes(b.valid)}, ({b.index})%Z, Some ({q_boxes(c.valid)}, ({c.index})%Z))")
            int_d.append(json.dumps({"a": a.valid, "b": b.valid, "index": n}))
    a0 = T(Choices.generate, [0, 1], 0, set())
    c0 = Choices.intersection(a0, a0)
    int_c.append(f"({q_boxes(a0.valid)}, 0%Z, {q_boxes(a0.valid)}, 0%Z, Some ({q_boxes(c0.valid)}, ({c0.index})%Z))")
    int_d.append("n=0")
    try:
        Choices.intersection(Choices([[[0]]], 1), Choices([[[0], [0]]], 2))
        mism.append("inter stream: real intersection with different index did not raise")
    except AssertionError:
        int_c.append("([[[0]]], 1%Z, [[[0];[0]]], 2%Z, None)")
        int_d.append("index mismatch")
    cr = Choices.choice_reduce()
    if cr.valid != [] or cr.index != -1:
        mism.append(f"choice_reduce() is not Choices([], -1): {cr.valid}, {cr.index}")
    typ_i = "list box * Z * list box * Z * option (list box * Z)"
    chk_int = ("Definition boxes_eqb := list_eqb box_eqb.\n"
               "Definition chk (x : " + typ_i + ") : bool :=\n  let '(a, ia, b, ib, e) := x in\n"
               "  match intersection (mkC a ia) (mkC b ib), choice_reduce [mkC a ia; mkC b ib], e with\n"
               "  | Ok c, Ok c', Some (v, i) => boxes_eqb (valid c) v && (index c =? i)%Z && boxes_eqb (valid c') v\n"
               "  | Err AssertionError, Err AssertionError, None => true\n  | _, _, _ => false end.\n")
    add("inter", int_c, typ_i, chk_int, int_d)

    # ---- edge: outside the claimed domain (exception kinds)
    edge_c, edge_d = [], []
    edge_inputs = [([0, 1], 2, [(), ((0, 0), (1, 1))]), ([0, 1], 2, [(), ((0, 0),)]), ([0, 1], 0, [()]), ([0, 1], 2, [()]),
                   ([0, 1], 1, [((0, 1),)]), ([0, 1], 1, [((0, 0), (1, 1))]), ([0, 1], 2, [((0, 5),), ((1, 0),)]),
                   ([0, 1, 2], 2, [((0, 0),), ((1, 0),), ((2, 0), (1, 3))])]
    for _ in range(ctx.n(40, 200)):
        dom = list(range(rng.choice([2, 3])))
        n = rng.randint(1, 3)
        S = rand_set(rng, dom, n, 5)
        r = rng.random()
        if r < 0.5:
            S = S + [()]
        else:
            S = S + [tuple((rng.choice(dom), i) for i in sorted(rng.sample(range(n + 2), rng.randint(1, 2))))]
        edge_inputs.append((dom, n, S))
    n_edge_raise = 0
    for (dom, n, S) in edge_inputs:
        S_order = list(set(S))
        err, isv, inf, fnone, c = observe_generate(Choices, dom, n, S_order)
        if err not in (None, "IndexError"):
            if err != "CaseTimeout" or HANGS[0] <= 3:
                mism.append(f"edge stream: unexpected exception {err} on {jcase('generate', dom, n, S)}")
            continue
        n_edge_raise += bool(err)
        if err:
            exp = "None"
        else:
            exp = f"(Some ({q_bools(isv)}, {q_b(inf)}, {q_b(fnone is True)}))"
        edge_c.append(f"({q_nats(dom)}, {n}, {q_seqs(S_order)}, {exp})")
        edge_d.append(json.dumps(jcase("generate", dom, n, S_order)))
    chk_edge = ("Definition chk (x : " + typ + ") : bool :=\n  let '(dom, n, sq, e) := x in\n"
                "  match generate ord_id pick_head fuel dom n sq, e with\n"
                "  | Ok c, Some (isv, inf, fnone) => bools_eqb (map (is_valid c) (all_vectors dom n)) isv && Bool.eqb (infinite c) inf\n"
                "  | Err IndexError, None => true\n  | _, _ => false end.\n")
    add("edge", edge_c, typ, chk_edge, edge_d)

    # ---- evaluate
    t_obs = round(time.time() - t_start, 1)
    t1 = time.time()
    results = vlib.coq_eval_many([(n, HEADER + b) for n, b in jobs], timeout=600)
    t_coq = round(time.time() - t1, 1)
    ncases = 0
    per = {}
    for name, _ in jobs:
        stream, ds = desc[name]
        ok, out = results[name]
        vals = vlib.parse_eval_results(out)
        per[stream] = per.get(stream, 0) + len(ds)
        ncases += len(ds)
        if not ok or not vals:
            mism.append(f"{name}.v did not evaluate: {out[-400:]}")
            continue
        if vals[-1] != "[]":
            idxs = [int(x) for x in vals[-1].strip("[]").split(";") if x.strip()]
            first = ds[idxs[0]] if idxs and idxs[0] < len(ds) else "?"
            mism.append(f"stream {stream}: model and real code differ on {len(idxs)} case(s); first: {first[:700]}")
    st = {"cases": ncases, "per_stream": per, "pass_calls_observed": calls, "pass_calls_that_changed_the_set": fired,
          "edge_cases_raising_IndexError": n_edge_raise, "files": len(jobs),
          "seconds_observing_real_code": t_obs, "seconds_coq_evaluation": t_coq}
    if min(fired.values()) == 0 and HANGS[0] == 0:
        mism.append(f"pass stream degenerate: some pass never changed a set: {fired}")
    if len(mism) > 12:
        mism = mism[:12] + [f"... and {len(mism) - 12} more"]
    return mism, st


def run(ctx):
    failing, stats = search(ctx)
    mism, cst = correspondence(ctx)
    stats["evaluations"] += cst.get("cases", 0)
    stats["correspondence"] = cst
    stats["rule"] += "; correspondence: see `correspondence.per_stream` (each case evaluated inside Coq by vm_compute)"
    return {"failing": failing, "corr_mismatch": mism, "stats": stats}


def replay(ctx, data):
    case = data.get("input", data) if isinstance(data, dict) else data
    if isinstance(case, dict) and "history" in case:
        for c in case["history"]:
            r = check_case(c)
            if r:
                r["sig"] = ["C04", "history-dependent"]
                return r
        return None
    if not isinstance(case, dict) or "kind" not in case:
        r = search(ctx)[0]
        return r[0] if r else None
    return check_case(case)
