"""C15: the fields of a function result agree with each other and across modes."""
import itertools
import vlib
import e2e
import streams

ID = "C15"
LEVEL = "proof"
MODEL_TARGETS = ["theories/Analysis.vo"]
TRANSLATORS = ["semiring", "rules"]
LEVEL_TEXT = ("Machine-checked theorems (coq/props/C15.v) about the result assembly of the Coq model of Analysis.func: which fields are present in which case, "
              "equality of the two modes on non-infinite functions, the choice object accepts exactly the derivable vectors (where the relation's matrix is the "
              "derived, infinity-free one), inf_flows names only entries that can be infinite; the clause 'exactly the vectors at which the relation has no "
              "infinity' is REFUTED with a vm_compute witness (open finding). Model tied to the code by the end-to-end correspondence; every clause is "
              "re-checked directly on every real result.")
LEVEL_NOTE = "Trusted: Coq kernel, translators, reader, generators. One clause has an open finding (see known_findings.json): choices may be stricter than the relation's visible infinities."
TECHNIQUE = "Coq proof over an executable model + differential correspondence + direct clause check on every real result"
EXPLANATION = "see LEVEL_TEXT"
ASSUMPTIONS = ["timestamps are excluded from mode comparison"]


def field_checks(d, fin, src, failing, strict):
    inp = {"src": src, "opts": {"fin": fin, "strict": strict}}

    def fail(tag, what, exp=None, obs=None):
        failing.append({"what": f"{tag}: {what}", "sig": ["C15", tag], "input": inp, "expected": exp, "observed": obs})
    if d["infinite"]:
        if d["has_bound"] or d["has_choices"]:
            fail("infinite-has-bound", "an infinite result carries a bound or choices")
        if (d["relation"] is not None) != fin:
            fail("infinite-relation", f"infinite result with fin={fin}: relation present={d['relation'] is not None}")
        if (d["inf_flows"] is not None) != fin:
            fail("inf-flows-presence", f"infinite result with fin={fin}: inf_flows={d['inf_flows']!r}")
        if d["inf_flows"]:
            rel = d.get("relation")
            # every named pair must have an infinity monomial in its cell
            vs = rel["vars"]
            for part in d["inf_flows"].split(" ‖ "):
                src_v, tgts = part.split(" ➔ ")
                for t in tgts.split(", "):
                    cellp = rel["matrix"][vs.index(src_v.strip())][vs.index(t.strip())]
                    if not any(s == "i" for s, _ in cellp):
                        fail("inf-flows-pair", f"inf_flows names {src_v}->{t} whose entry has no infinity")
    else:
        if d["relation"] is None:
            fail("finite-no-relation", "a non-infinite result has no relation")
        if not d["has_choices"] or d["first"] is None:
            fail("finite-no-choice", "a non-infinite result has no valid choice")
        elif len(d["first"]) != d["index"]:
            fail("first-length", "length of the first choice differs from the degree", d["index"], len(d["first"]))
        if d["choices_index"] != d["index"]:
            fail("choices-index", "choices.index differs from the degree", d["index"], d["choices_index"])
        if not d["has_bound"] or sorted(d["bound"].keys()) != sorted(d["variables"]):
            fail("bound-vars", "bound does not have exactly one entry per reported variable", d["variables"], d["bound"])
        if d["inf_flows"] is not None:
            fail("inf-flows-presence", "a non-infinite result carries inf_flows")
        # choices accept exactly the vectors at which the relation has no infinity
        rel = d.get("apply")
        if rel is not None and d["valid"] is not None and d["index"] <= 6:
            for idx, c in enumerate(itertools.product((0, 1, 2), repeat=d["index"])):
                has_inf = any("i" in row for row in rel.apply_choice(*c).matrix)
                if d["valid"][idx] and has_inf:
                    fail("choices-accept-infinity", f"choice {list(c)} accepted although the relation has an infinity there")
                    break
                if (not d["valid"][idx]) and not has_inf:
                    # which side is wrong?  ask the calculus: if the vector has no derivation the choice object is right and the
                    # relation has lost an infinity (the listed open finding); otherwise the choice object rejects a derivable vector
                    derivable = None
                    if d.get("typed") is not None:
                        import calc
                        derivable = calc.derive(d["typed"], list(c))[0] is not None
                    if derivable is False:
                        fail("choices-stricter-than-relation", f"choice {list(c)} rejected although the relation shows no infinity there "
                             "(the failure was recorded when a loop was closed and later disappeared from the matrix)")
                    else:
                        fail("choices-reject-clean-vector", f"choice {list(c)} rejected although the relation has no infinity there and the calculus derives it")
                    break


def _ss_worker(args):
    """every clause of the property on one small-scope program (both modes, default syntax mode)"""
    label, src, _ = args
    failing, outcome, res = [], {}, {}
    for fin in (False, True):
        r = e2e.run_real(src, fin, False)
        if r["exc"] and r["exc"][0] == "Timeout":
            continue
        if r["exc"]:
            failing.append({"what": f"raise: {r['exc']}", "sig": ["C15", "raise", r["exc"][0], r["exc"][1]],
                            "input": {"src": src, "opts": {"fin": fin, "strict": False}}})
            continue
        d = r["funcs"].get("f")
        if d is None:
            continue
        res[fin] = d
        field_checks(d, fin, src, failing, False)
        outcome["infinite" if d["infinite"] else "finite"] = outcome.get("infinite" if d["infinite"] else "finite", 0) + 1
    if len(res) == 2 and not res[False]["infinite"]:
        a, b = e2e.strip(res[False]), e2e.strip(res[True])
        for k in ("infinite", "index", "variables", "relation", "valid_boxes", "first", "bound", "inf_flows"):
            if a.get(k) != b.get(k):
                failing.append({"what": f"modes-differ: field {k} differs between early-stop and run-to-completion on a non-infinite function",
                                "sig": ["C15", "modes-differ", k], "input": {"src": src, "opts": {"strict": False}}, "expected": a.get(k), "observed": b.get(k)})
                break
    for f in failing:
        f.setdefault("what", "")
        f["what"] = "[small scope] " + f["what"]
    return failing, outcome


def run(ctx):
    vlib.import_pymwp()
    n = ctx.n(140, 1500)
    progs = streams.programs(ctx, n, max_sites=5)
    failing, mism, recs, coq_cases = [], [], [], []
    same_modes = 0
    for label, src in progs:
        for strict in (False, True):
            res = {}
            for fin in (False, True):
                r = e2e.run_real(src, fin, strict)
                if r["exc"]:
                    if r["exc"][0] not in ("ParseError", "Timeout"):      # the 30 s limit is a harness safety net; termination is property C06
                        failing.append({"what": f"raise: {r['exc']}", "sig": ["C15", "raise", r["exc"][0], r["exc"][1]],
                                        "input": {"src": src, "opts": {"fin": fin, "strict": strict}}})
                    continue
                d = r["funcs"].get("f")
                if d is None:
                    continue
                res[fin] = d
                recs.append(d)
                field_checks(d, fin, src, failing, strict)
                if d["typed"] is not None and d["index"] <= 5 and not strict:
                    coq_cases.append((f"{label} fin={fin}\n{src}", d, not fin))
            if len(res) == 2 and not res[False]["infinite"]:
                a, b = e2e.strip(res[False]), e2e.strip(res[True])
                for k in ("infinite", "index", "variables", "relation", "valid_boxes", "first", "bound", "inf_flows"):
                    if a.get(k) != b.get(k):
                        failing.append({"what": f"modes-differ: field {k} differs between early-stop and run-to-completion on a non-infinite function",
                                        "sig": ["C15", "modes-differ", k], "input": {"src": src, "opts": {"strict": strict}}, "expected": a.get(k), "observed": b.get(k)})
                        break
                else:
                    same_modes += 1
    # the same Result object handed to two runs (res= is a documented parameter): the second run's results are the second run's
    from pymwp import Analysis, Result
    nreuse = 0
    for label, src in progs[: ctx.n(40, 300)]:
        for first_fin in (False, True):
            try:
                shared = Result()
                vlib.with_timeout(lambda: Analysis.run(e2e.parse(src), res=shared, fin=first_fin, strict=False), 20)
                r2 = vlib.with_timeout(lambda: Analysis.run(e2e.parse(src), res=shared, fin=not first_fin, strict=False), 20)
                fresh = vlib.with_timeout(lambda: Analysis.run(e2e.parse(src), res=Result(), fin=not first_fin, strict=False), 20)
            except Exception:
                continue
            nreuse += 1
            strip = lambda d: {k: v for k, v in d.items() if k not in ("start_time", "end_time")}
            got = {n_: strip(f_.to_dict()) for n_, f_ in r2.relations.items()}
            want = {n_: strip(f_.to_dict()) for n_, f_ in fresh.relations.items()}
            if got != want:
                bad = [n_ for n_ in want if got.get(n_) != want[n_]] or list(got)
                failing.append({"what": f"result-reuse: function {bad[0]} analysed with fin={not first_fin} into a Result object that already held its "
                                        f"fin={first_fin} result differs from the same analysis into a new Result",
                                "sig": ["C15", "result-reuse"], "input": {"src": src, "reuse": True, "first_fin": first_fin}, "expected": "the second run's own result",
                                "observed": "a stale / mixed result"})
                break
    ssf, ssinfo = streams.small_scope_map(ctx, _ss_worker, 800)
    failing += ssf
    if ctx.coq_ok:
        mism += e2e.coq_compare("c15", coq_cases)
    else:
        mism.append("model not built: analysis correspondence not run")
    dist = streams.distribution(recs)
    distinct = len({repr(d["typed"]) for d in recs if streams.nontrivial(d)})
    stats = {"evaluations": len(recs) + 2 * ssinfo["programs"], "distinct_nontrivial": distinct,
             "rule": "generated functions x {fin} x {strict}; every clause of the property checked on each real result; non-trivial = distinct typed function with a site and a loop or branch",
             "samples": [progs[-1][1]], "distribution": dist, "finite_mode_pairs_equal": same_modes, "coq_model_cases": len(coq_cases), "small_scope": ssinfo, "result_reuse_pairs": nreuse}
    return {"failing": failing, "corr_mismatch": mism, "stats": stats}


def replay(ctx, data):
    vlib.import_pymwp()
    inp = data.get("input", data)
    o = inp.get("opts", {})
    failing = []
    if inp.get("reuse"):
        from pymwp import Analysis, Result
        ff = bool(inp.get("first_fin"))
        shared = Result()
        Analysis.run(e2e.parse(inp["src"]), res=shared, fin=ff, strict=False)
        r2 = Analysis.run(e2e.parse(inp["src"]), res=shared, fin=not ff, strict=False)
        fresh = Analysis.run(e2e.parse(inp["src"]), res=Result(), fin=not ff, strict=False)
        strip = lambda d: {k: v for k, v in d.items() if k not in ("start_time", "end_time")}
        if {n_: strip(f_.to_dict()) for n_, f_ in r2.relations.items()} != {n_: strip(f_.to_dict()) for n_, f_ in fresh.relations.items()}:
            return {"what": "result-reuse: stale result", "sig": ["C15", "result-reuse"], "input": inp}
        return None
    res = {}
    for fin in ((o["fin"],) if ("fin" in o and data.get("sig", [None, None])[1:2] != ["modes-differ"] and False) else (False, True)):
        r = e2e.run_real(inp["src"], fin, o.get("strict", False))
        if r["exc"]:
            return {"what": f"raise: {r['exc']}", "sig": ["C15", "raise", r["exc"][0], r["exc"][1]], "input": inp}
        d = r["funcs"].get("f")
        if d is not None:
            res[fin] = d
            if "fin" not in o or o["fin"] == fin:
                field_checks(d, fin, inp["src"], failing, o.get("strict", False))
    if len(res) == 2 and not res[False]["infinite"]:
        a, b = e2e.strip(res[False]), e2e.strip(res[True])
        for k in ("infinite", "index", "variables", "relation", "valid_boxes", "first", "bound", "inf_flows"):
            if a.get(k) != b.get(k):
                failing.append({"what": f"modes-differ: field {k}", "sig": ["C15", "modes-differ", k], "input": inp})
                break
    want = data.get("sig")
    for f in failing:
        if want is None or f["sig"] == want:
            return f
    return failing[0] if failing else None
