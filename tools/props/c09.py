"""C09: polynomial sum/product are pointwise. Correspondence = structural equality of the result lists
(in order) between the Coq model (Poly.v, vm_compute) and the real Polynomial.add/times; search = brute
force over all choice vectors on the real code + normal form + operands-unchanged."""
import vlib
import polylib as PL
import unitcorr

ID = "C09"
LEVEL = "proof"
MODEL_TARGETS = ["theories/Poly.vo", "theories/RefModel.vo"]
TRANSLATORS = ["semiring"]
LEVEL_TEXT = ("Machine-checked theorems about an executable, code-shaped Coq model of Polynomial.add/times/Monomial.prod: sum law for ALL "
              "monomial lists, product law (zero when an operand has no term) for all lists with satisfiable monomials, termination of both "
              "loops, normal form of the results; unbounded in number of monomials, deltas and sites. 'Neither operation changes its operands' is "
              "proved on the reference-level model (RefModel.v: heap of monomial objects, in-place scalar writes, argument monomials shared by "
              "reference): add writes to NO pre-existing monomial for arbitrary, even aliased or unsorted operands (the EQUAL branch of its main "
              "loop is dead; the merge's write only hits copies made by the call), times likewise. The model is tied to the code on every "
              "run by structural comparison of result lists on generated reachable and malformed operands.")
LEVEL_NOTE = ("Trusted: Coq kernel; the correspondence harness (generators, Coq literal printer). 'Operands unchanged' is checked on the real "
              "objects by a before/after snapshot (id, scalar, deltas) on every case, aliased calls x+x / x*x included; the reference-level model "
              "the theorems are about (RefModel.v) is evaluated on the same cases and compared with the real object graph (provenance of every "
              "result monomial: which pre-existing object or fresh; state of every pre-existing monomial after the call), here and in the C13 "
              "check's `refmodel ops` stream. No axioms.")
TECHNIQUE = "Coq proof (induction over the merge loops with a value invariant) + differential correspondence via vm_compute"
EXPLANATION = "see LEVEL_TEXT; theorems in coq/props/C09.v, model coq/theories/Poly.v"
ASSUMPTIONS = ["choice vectors are at least as long as the largest delta index + 1 (shorter tuples raise IndexError in Python)",
               "Monomial objects in one list are distinct objects (list.remove by identity)"]

HEADER = ("From Coq Require Import List Bool.\nFrom PM Require Import Semiring Poly.\nImport ListNotations.\n"
          "Definition run (c : bool * poly * poly * poly) : bool :=\n"
          "  let '(op, p, q, e) := c in poly_eqb (if op then padd p q else ptimes p q) e.\n"
          "Fixpoint bad (n : nat) (l : list (bool * poly * poly * poly)) : list nat :=\n"
          "  match l with [] => [] | c :: t => if run c then bad (S n) t else n :: bad (S n) t end.\n")


def snapshot(p):
    return [(id(m), m.scalar, list(m.deltas)) for m in p.list]


def one_case(op, pd, qd, raw):
    """run the real code; returns dict with result data / exception, and side observations."""
    p, q = PL.from_data(pd, raw), PL.from_data(qd, raw)
    pd0, qd0 = PL.to_data(p), PL.to_data(q)
    sp, sq = snapshot(p), snapshot(q)
    st = ref_before(p, q)
    r = None
    try:
        r = vlib.with_timeout(lambda: (p + q) if op == "add" else (p * q), 20)
        res = PL.to_data(r)
        exc = None
    except vlib.CaseTimeout:
        res, exc = None, ["Timeout", None]
    except Exception as e:
        res, exc = None, vlib.exc_sig(e)
    unchanged = (snapshot(p) == sp and snapshot(q) == sq)
    return {"op": op, "p": pd0, "q": qd0, "res": res, "exc": exc, "unchanged": unchanged, "ref": ref_after(st, op, r)}


def ref_before(p, q):
    """reference-level view of the operands: every monomial OBJECT gets a stamp (position in a heap; ZERO's and UNIT's monomials are 0, 1)"""
    from props import c13
    S_ = c13.Stamper()
    ps, qs = [S_.st(m) for m in p.list], [S_.st(m) for m in q.list]
    return S_, ps, qs, S_.heap()


def ref_after(st, op, r):
    """the case for RefModel.v (props.c13.REF_HEADER.check_op): result monomials with their provenance (stamp of a pre-existing object or
    fresh), and the state of every pre-existing monomial after the call"""
    from props import c13
    if r is None or not st[1] or not st[2] or len(st[3]) > 160:
        return None
    S_, ps, qs, h0 = st
    return "(%s, %s, %s, %s, %s, %s)" % ("ADD" if op == "add" else "TIMES", c13._cq_heap(h0), c13._cq_stamps(ps), c13._cq_stamps(qs),
                                         c13._cq_obs_poly(S_.obs(r)), c13._cq_heap(S_.heap()[:len(h0)]))


def oracle(case, failing):
    """semantic checks on the real result (independent of the Coq model)."""
    op, pd, qd, res = case["op"], case["p"], case["q"], case["res"]
    inp = {"op": op, "p": pd, "q": qd}
    if case.get("chain"):
        inp["chain"] = case["chain"]
    if case["exc"]:
        failing.append({"what": f"raise: Polynomial.{op} raised {case['exc']}", "sig": ["C09", "raise", op], "input": inp,
                        "expected": "a polynomial", "observed": case["exc"]})
        return
    if not case["unchanged"]:
        failing.append({"what": f"mutated: Polynomial.{op} changed an operand", "sig": ["C09", "operand-mutated", op], "input": inp,
                        "expected": "operands unchanged", "observed": "changed"})
    # normal form (claimed for non-empty operand lists: Polynomial.list is never empty for a constructed
    # polynomial; with an empty list `add` returns a copy of the other operand, whatever it contains)
    dl = [tuple(ds) for _, ds in res]
    if not pd or not qd:
        pass
    elif len(set(dl)) != len(dl):
        failing.append({"what": f"nf: {op} result has two terms with the same delta list", "sig": ["C09", "nf-dup", op], "input": inp,
                        "expected": "distinct delta lists", "observed": res})
    if pd and qd and len(res) > 1 and any(s == "o" for s, _ in res):
        failing.append({"what": f"nf: {op} result has a zero term alongside others", "sig": ["C09", "nf-zero", op], "input": inp,
                        "expected": "no zero term", "observed": res})
    if len(res) == 0:
        failing.append({"what": f"nf: {op} result is the empty list", "sig": ["C09", "nf-empty", op], "input": inp, "expected": "[o]", "observed": res})
    well = all(PL.satisfiable(ds) for _, ds in pd) and all(PL.satisfiable(ds) for _, ds in qd)
    if op == "times" and not well:
        return
    k = PL.max_index(pd, qd, res)
    if k > 6:
        return
    for c in PL.all_choices(k):
        tp, tq = PL.poly_terms(pd, c), PL.poly_terms(qd, c)
        got = PL.smax(PL.poly_terms(res, c))
        if op == "add":
            exp = PL.smax(tp + tq)
        else:
            exp = "o" if (not tp or not tq) else PL.sprod(PL.smax(tp), PL.smax(tq))
        if got != exp:
            failing.append({"what": f"pointwise: {op} value at choice {list(c)} is {got}, expected {exp}", "sig": ["C09", "pointwise", op],
                            "input": dict(inp, choice=list(c)), "expected": exp, "observed": got})
            return


def run_chain(steps):
    """A *live* history on real objects: acc = leaf0; acc = acc op leaf_i ...; every step is one case whose operand p is the very
    object the previous step returned (so anything an operation leaves behind on an object -- caches, shared monomials -- is carried along).
    steps: [(op, index, (a, b, c))] with op in add/times/add_self/times_self (the *_self forms call x.add(x) / x.times(x)).
    Returns the list of case dicts (same format as one_case) with the chain prefix attached."""
    from pymwp import Polynomial
    out = []
    acc = None
    for n, (op, idx, sc) in enumerate(steps):
        leaf = Polynomial.from_scalars(idx, *sc)
        if acc is None:
            acc = leaf
            continue
        p = acc
        q = p if op.endswith("_self") else leaf
        bop = op.split("_")[0]
        pd0, qd0 = PL.to_data(p), PL.to_data(q)
        sp, sq = snapshot(p), snapshot(q)
        st = ref_before(p, q)
        try:
            r = vlib.with_timeout(lambda: (p + q) if bop == "add" else (p * q), 60)
            res, exc = PL.to_data(r), None
        except vlib.CaseTimeout:
            r, res, exc = None, None, ["Timeout", None]
        except Exception as e:
            r, res, exc = None, None, vlib.exc_sig(e)
        unchanged = (snapshot(p) == sp and snapshot(q) == sq)
        out.append({"op": bop, "p": pd0, "q": qd0, "res": res, "exc": exc, "unchanged": unchanged,
                    "chain": [[o, i, list(c)] for o, i, c in steps[:n + 1]], "aliased": q is p, "ref": ref_after(st, bop, r)})
        if r is None:
            break
        acc = r
    return out


def gen_chain(rng, nsites):
    """mostly products of leaves over distinct indices (monomials with up to nsites deltas), now and then a sum, an aliased call"""
    order = list(range(nsites))
    rng.shuffle(order)
    steps = []
    size = 1
    for n, idx in enumerate(order):
        r = rng.random()
        op = "times" if (n == 0 or r < 0.8) else "add"
        steps.append((op, idx, rng.choice(PL.LEAVES[2:] + [PL.LEAVES[2]])))
        size = size * 3 if op == "times" else size + 3
        if n and size <= 27 and rng.random() < 0.25:
            steps.append((rng.choice(["add_self", "times_self"]), idx, PL.LEAVES[0]))
    return steps


def gen_cases(ctx, n_reach, n_mal):
    vlib.import_pymwp()
    rng = ctx.rng
    cases = []
    gen_fail = 0
    for _ in range(n_reach):
        ns = rng.choice([1, 2, 2, 3, 3, 4])
        d = rng.choice([1, 2, 2, 3])
        try:
            p = PL.gen_reachable(rng, d, ns)
            q = PL.gen_reachable(rng, d, ns)
        except PL.GenFailure as g:   # the failing operation itself becomes a case (it will raise again)
            cases.append((g.op, g.p, g.q, True))
            gen_fail += 1
            if gen_fail > 20:
                break
            continue
        if len(p.list) * len(q.list) > 400:
            q = PL.gen_leaf(rng, ns)
        cases.append((rng.choice(["add", "times"]), PL.to_data(p), PL.to_data(q), False))
    for _ in range(n_mal):
        ns = rng.choice([1, 2, 3])
        cases.append((rng.choice(["add", "times"]), PL.gen_malformed(rng, ns), PL.gen_malformed(rng, ns), True))
    return cases


def run(ctx):
    vlib.import_pymwp()
    n_reach, n_mal = ctx.n(700, 6000), ctx.n(500, 4000)
    corpus = [(c["op"], [tuple(m) for m in c["p"]], [tuple(m) for m in c["q"]], c.get("raw", False)) for c in vlib.corpus("C09")]
    corpus = [(op, [(s, [tuple(d) for d in ds]) for s, ds in p], [(s, [tuple(d) for d in ds]) for s, ds in q], raw) for op, p, q, raw in corpus]
    raw_cases = corpus + gen_cases(ctx, n_reach, n_mal)
    results = [one_case(*c) for c in raw_cases]
    # live histories: the operand is the object an earlier operation returned (6 sites: monomials with >= 5 deltas; 729-term products)
    n_chain_cases = 0
    chains = [gen_chain(ctx.rng, 6) for _ in range(ctx.n(3, 16))] + [gen_chain(ctx.rng, ctx.rng.choice([3, 4, 5])) for _ in range(ctx.n(12, 100))]
    for ch in chains:
        rs = run_chain(ch)
        n_chain_cases += len(rs)
        results += rs
    failing, mism = [], []
    for r in results:
        oracle(r, failing)
    # correspondence inside Coq
    ok_cases = [r for r in results if r["res"] is not None]
    n_exc = len(results) - len(ok_cases)
    if ctx.coq_ok:
        jobs = []
        shards = [ok_cases[i:i + 400] for i in range(0, len(ok_cases), 400)]
        for si, sh in enumerate(shards):
            lits = ["(%s, %s, %s, %s)" % ("true" if r["op"] == "add" else "false", PL.cq_poly(r["p"]), PL.cq_poly(r["q"]), PL.cq_poly(r["res"]))
                    for r in sh]
            text = HEADER + "Definition cases : list (bool * poly * poly * poly) :=\n " + vlib.cq_list(lits) + ".\nEval vm_compute in bad 0 cases.\n"
            jobs.append((f"c09_s{si}", text))
        outs = vlib.coq_eval_many(jobs)
        for si, sh in enumerate(shards):
            ok, out = outs[f"c09_s{si}"]
            vals = vlib.parse_eval_results(out)
            if not ok or not vals:
                mism.append(f"stream poly shard {si}: coqc failed: {out[-300:]}")
                continue
            if vals[0] != "[]":
                idx = [int(x) for x in vals[0].strip("[]").split(";") if x.strip()]
                bad = sh[idx[0]]
                mism.append(f"stream poly shard {si}: model and code differ on {len(idx)} cases; first: op={bad['op']} p={bad['p']} q={bad['q']} code={bad['res']}")
        # reference-level model (RefModel.v, the model the operands-unchanged theorems are about) on the same cases: provenance of every
        # result monomial (which pre-existing object / fresh), its value, and the state of every pre-existing monomial after the call
        from props import c13
        refs = [(r["ref"], r) for r in results if r.get("ref")][: ctx.n(900, 6000)]
        rjobs = []
        for a in range(0, len(refs), 250):
            text = (c13.REF_HEADER + "Definition cases : list (opk * heap * rpoly * rpoly * list (option nat * mono) * heap) := "
                    + vlib.cq_list([x[0] for x in refs[a:a + 250]]) + ".\nEval vm_compute in bad check_op 0 cases.\n")
            rjobs.append((f"c09_ref{a // 250}", text))
        routs = vlib.coq_eval_many(rjobs, timeout=900)
        for k, (name, _) in enumerate(rjobs):
            ok, out = routs[name]
            vals = vlib.parse_eval_results(out)
            if not ok or not vals:
                mism.append(f"stream refmodel {name}: coqc failed: {out[-300:]}")
            elif vals[0] != "[]":
                import re as _re
                pairs = _re.findall(r"\((\d+), (\d+)\)", vals[0])
                i, code = int(pairs[0][0]), int(pairs[0][1])
                bad = refs[k * 250 + i][1]
                mism.append(f"stream refmodel {name}: {len(pairs)} cases differ; first: {c13.REF_CODES_OP.get(code, code)} on op={bad['op']} "
                            f"p={bad['p']} q={bad['q']} aliased={bad.get('aliased', False)}")
        n_ref = len(refs)
    else:
        mism.append("model not built: polynomial correspondence not run")
        n_ref = 0
    m_aux, n_aux = unitcorr.poly_aux(ctx, ctx.n(300, 3000))
    mism += m_aux
    sizes = [len(r["p"]) * len(r["q"]) for r in results]
    distinct = len({(r["op"], str(r["p"]), str(r["q"])) for r in results if len(r["p"]) + len(r["q"]) > 2})
    stats = {"evaluations": len(results), "distinct_nontrivial": distinct,
             "rule": "operands: reachable stream (random +/x trees over the analysis leaf forms, depth<=3, sites<=4, random p/w->i corrections), "
                     "live chains (the operand IS the object the previous operation returned; products of leaves over up to 6 sites, sums, aliased x+x / x*x) "
                     "and malformed stream (arbitrary scalar/delta lists set directly on the objects); non-trivial = distinct (op,p,q) with more than two monomials in total",
             "samples": [{"op": r["op"], "p": r["p"], "q": r["q"], "result": r["res"]} for r in results[len(corpus):len(corpus) + 3]],
             "n_refmodel_cases": n_ref, "n_live_chains": len(chains), "n_live_chain_cases": n_chain_cases,
             "n_aliased_calls": sum(1 for r in results if r.get("aliased")),
             "n_reachable": n_reach, "n_malformed": n_mal, "n_corpus": len(corpus), "poly_aux_cases": n_aux, "n_exceptions": n_exc,
             "share_add": round(sum(1 for r in results if r["op"] == "add") / max(1, len(results)), 3),
             "max_operand_product_size": max(sizes) if sizes else 0,
             "share_with_infinity": round(sum(1 for r in results if any(s == "i" for s, _ in r["p"] + r["q"])) / max(1, len(results)), 3)}
    return {"failing": failing, "corr_mismatch": mism, "stats": stats}


def replay(ctx, data):
    vlib.import_pymwp()
    inp = data.get("input", data)
    raw = True
    if inp.get("chain"):
        rs = run_chain([(o, i, tuple(c)) for o, i, c in inp["chain"]])
        failing = []
        if rs:
            oracle(rs[-1], failing)
        return failing[0] if failing else None
    r = one_case(inp["op"], [(s, [tuple(d) for d in ds]) for s, ds in inp["p"]], [(s, [tuple(d) for d in ds]) for s, ds in inp["q"]], raw)
    failing = []
    oracle(r, failing)
    return failing[0] if failing else None
