"""C06: analysis of any parseable C file terminates without raising.

SEARCH (decisive part): the REAL Analysis.run / LoopAnalysis.run are fuzzed for exceptions and hangs on
translation units that mix supported and unsupported constructs at every position:
  (i)   functions of tools/gen_prog.py (inside the analysed fragment) with edge statements inserted at random
        positions of every statement list and edge expressions put in place of loop / branch conditions;
  (ii)  the statement generators of tools/syntax_common.py (calls, arrays, pointers, ternary, compound
        assignment, n-ary expressions, switch, goto, labels, initialised / array / pointer declarations, odd
        for-headers, casts, constant folding, nested unary, comma expressions, typedef, pragma ...);
  (iii) own sub-generators: casts around every expression form in every statement/condition position, runs of
        failing loops, nesting chains up to depth 6 (quick) / 10 (thorough), struct/typedef/enum/prototype
        preambles, odd function signatures (void, K&R, pointer result, array/pointer/vararg parameters,
        empty bodies, several functions per file, duplicate names);
  (iv)  the files of /repo/c_files and /repo/tests/examples that pycparser parses without cpp;
  (v)   corpus/C06.json (witnesses of repaired defects and of earlier findings), run first.
For each unit x {Analysis.run, LoopAnalysis.run} x {strict} x {fin}: a FRESH parse, run under a 20 s limit,
required: no exception, json.dumps(result.to_dict()) succeeds, and in non-strict mode every FuncDef with a
body is a key of result.relations (loop mode: result.loops).  A run over the limit inside the 16-process pool is
repeated alone with 60 s; only then it counts as a hang.  Failures are shrunk (generic tree:
tools/syntax_common.shrink_source; text level for units whose tree pycparser built against its own schema) and
reported with signature
   ["C06", exception type | "Timeout" | "json:<type>" | "missing-function",
    innermost pymwp function (timeout: the long-running pymwp function that was interrupted),
    class of the AST node that function was handling | "list-in-single-slot" | None].
CORRESPONDENCE: units inside the typed fragment go through e2e.coq_compare (model RErr <-> real raise are
codes 1/2 there, next to index / variables / matrix / valid vectors).
"""
import glob
import json
import os
import time

import vlib
import e2e
import gen_prog
import streams
import syntax_common as S

ID = "C06"
LEVEL = "proof"
MODEL_TARGETS = ["theories/Analysis.vo"]
TRANSLATORS = ["semiring", "rules"]
LEVEL_TEXT = ("Theorems in coq/props/C06.v about the Err-instrumented executable model Analysis.v (typed statement grammar): for statements "
              "whose binary operators are in BIN_OPS and whose names are non-empty, started from a reachable delta graph, compute / analyse "
              "return a result or one of the two artificial fuel errors -- no IndexError (replace_column), AssertionError (create_vector), "
              "ValueError (loop_correction) or delta-graph KeyError can occur -- and the nesting fuel error is excluded when the fuel exceeds "
              "the nesting depth. NOT proved: termination of Relation.fixpoint on polynomials (the theorems leave RErr \"fuel:fixpoint\" open; "
              "the real loop `while fix != prev` is only observed to stop, under a 20 s limit per run). The generic-tree dispatch (arbitrary "
              "pycparser node classes, Coverage / ast_mod removal pass, Variables, FindLoops) is NOT covered by a theorem here: it is the "
              "Syntax.v model of C05/C07/C19 plus the differential fuzzing of the real tool done by this check (exceptions, hangs, JSON "
              "serialisability, presence of every function in the result).")
LEVEL_NOTE = ("Trusted: Coq kernel; tools/cread.py (typed reading of the analysed AST); generators. 'Does not raise' transfers from the model to "
              "the code through the correspondence comparing raise/no-raise case by case; RecursionError/MemoryError on inputs beyond the "
              "generated nesting depth (6 quick / 10 thorough) are outside the claim.")
TECHNIQUE = "Coq proof over an executable Err-instrumented model + fuzzing of the real tool (exceptions, hangs, serialisation) + model/code correspondence"
EXPLANATION = "see LEVEL_TEXT"
ASSUMPTIONS = ["termination of Relation.fixpoint is PROVED for the model (props/C06.v: fixpoint_terminates...); on the real code divergence is only "
               "observable as a time limit (20 s in the pool, 60 s alone), and that proxy is trusted only on functions with at most 6 operation sites: "
               "run-to-completion is exponential in the number of sites by design, slower runs on larger functions are listed in the evidence, not alarmed",
               "generated nesting depth <= 6 (quick) / 10 (thorough); deeper programs may hit Python's recursion limit",
               "translation units are the ones pycparser.CParser().parse accepts without a preprocessor",
               "arbitrary node classes are exercised by fuzzing + the Syntax.v model (C05/C07/C19), not by a theorem of this property"]

TIME_LIMIT = 20
KNOWN_SLOW = "choice.py:build_choices"
CONFIGS = [(m, s, f) for m in ("func", "loop") for s in (False, True) for f in (False, True)]

# ---------------------------------------------------------------------------
# running the real tool on one unit
# ---------------------------------------------------------------------------


def fresh_parse(src):
    from pycparser import CParser
    return CParser().parse(src)


_PARSER = None


def quick_parse(src):
    """shared parser (fast); a failed parse can poison the lexer state, so drop it then"""
    global _PARSER
    from pycparser import CParser
    if _PARSER is None:
        _PARSER = CParser()
    try:
        return _PARSER.parse(src)
    except Exception:
        _PARSER = None
        raise


def body_funcs(ast):
    from pycparser import c_ast
    return [e.decl.name for e in ast.ext if isinstance(e, c_ast.FuncDef) and e.body is not None]


HEAVY = ("build_choices", "simplify", "fixpoint", "fusion", "remove_node", "choice_reduce", "generate", "eval", "var_eval")   # by priority


def crash_site(e):
    """(innermost pymwp function, class of the AST node it was handling, first 'heavy' pymwp function on the stack)"""
    import traceback
    fn, node_cls, heavy = None, None, None
    tb = e.__traceback__
    while tb is not None:
        fr = tb.tb_frame
        if os.sep + "pymwp" + os.sep in fr.f_code.co_filename:
            fn = os.path.basename(fr.f_code.co_filename) + ":" + fr.f_code.co_name
            nm = fr.f_code.co_name
            if nm in HEAVY and (heavy is None or HEAVY.index(nm) < HEAVY.index(heavy.split(":")[1])):
                heavy = fn
            n = fr.f_locals.get("node")
            if n is not None and type(n).__module__.startswith("pycparser"):
                node_cls = type(n).__name__
        tb = tb.tb_next
    if isinstance(e, AttributeError) and "'list' object has no attribute" in str(e):
        node_cls = "list-in-single-slot"      # pycparser put a list where its schema has one child (root cause, whatever the path)
    return fn, node_cls, heavy


SMALL_SITES = 6


def max_sites(src):
    """largest number of operation sites (binary-operation assignments, ++/--) in one function of the unit.  The analysis
    carries one three-valued choice per site, and run-to-completion works on polynomials over all of them: its cost grows
    exponentially with this number BY DESIGN, so a run that exceeds the time limit on a function with many sites is slow,
    not diverging (the 9-site witness of the thorough sweep finished after 85 s).  Termination itself is a theorem
    (props/C06.v, Rel_term); the time limit is only a proxy, and it is only trusted on functions with <= SMALL_SITES sites."""
    try:
        ast = quick_parse(src)
    except Exception:
        return 0
    best = 0

    def count(n):
        c = 0
        t = type(n).__name__
        if t == "Assignment" and type(n.rvalue).__name__ in ("BinaryOp", "Cast") and (
                type(n.rvalue).__name__ == "BinaryOp" or type(getattr(n.rvalue, "expr", None)).__name__ == "BinaryOp"):
            c += 1
        elif t == "UnaryOp" and n.op in ("++", "--", "p++", "p--"):
            c += 1
        elif t == "Assignment" and type(n.rvalue).__name__ == "UnaryOp" and n.rvalue.op == "-":
            c += 1
        for _, ch in n.children():
            c += count(ch)
        return c
    for e in ast.ext:
        if type(e).__name__ == "FuncDef":
            best = max(best, count(e))
    return best


def run_config(src, mode, strict, fin, limit=TIME_LIMIT):
    """one run on a fresh parse.  Returns {"ok": True, ...} or a failure record {kind, exc, node, detail}."""
    from pymwp import Analysis, LoopAnalysis
    ast = quick_parse(src)
    names = body_funcs(ast)
    fn = Analysis.run if mode == "func" else LoopAnalysis.run
    t0 = time.time()
    try:
        res = vlib.with_timeout(lambda: fn(ast, fin=fin, strict=strict), limit)
    except vlib.CaseTimeout as e:
        f, _, heavy = crash_site(e)
        return {"kind": "timeout", "exc": ["Timeout", heavy or "analysis"], "node": None, "detail": f"no result after {limit}s (interrupted in {f})"}
    except Exception as e:
        f, node_cls, _ = crash_site(e)
        return {"kind": "raise", "exc": [type(e).__name__, f], "node": node_cls, "detail": f"{type(e).__name__}: {str(e)[:120]}"}
    dt = time.time() - t0
    try:
        d = res.to_dict()
        json.dumps(d)
    except vlib.CaseTimeout:
        raise
    except Exception as e:
        f, _, _ = crash_site(e)
        return {"kind": "json", "exc": ["json:" + type(e).__name__, f or "json.dumps"], "node": None,
                "detail": f"to_dict/json.dumps: {type(e).__name__}: {str(e)[:120]}"}
    table = res.relations if mode == "func" else res.loops
    refused = 0
    if not strict:
        missing = [n for n in names if n not in table]
        if missing:
            return {"kind": "missing", "exc": ["missing-function", mode], "node": None, "detail": f"functions {missing} absent from the result"}
    else:
        refused = sum(1 for n in names if n not in table)
    return {"ok": True, "refused": refused, "funcs": len(names), "dt": dt}


def run_unit(src):
    """all eight configurations.  Returns (failures, info)"""
    vlib.import_pymwp()
    fails, info = [], {"runs": 0, "strict_funcs": 0, "strict_refused": 0, "slowest": 0.0}
    try:
        quick_parse(src)
    except Exception as e:
        return None, {"parse_error": str(e)[:100]}
    for mode, strict, fin in CONFIGS:
        r = run_config(src, mode, strict, fin)
        info["runs"] += 1
        if r.get("ok"):
            info["slowest"] = max(info["slowest"], r["dt"])
            if strict and mode == "func" and not fin:
                info["strict_funcs"] += r["funcs"]
                info["strict_refused"] += r["refused"]
            continue
        fails.append({"mode": mode, "strict": strict, "fin": fin, **r})
    return fails, info


def _worker(item):
    label, src = item
    try:
        fails, info = run_unit(src)
    except Exception as e:      # harness problem: never hide it
        return label, src, [{"mode": "?", "strict": False, "fin": False, "kind": "harness", "exc": ["harness:" + type(e).__name__, None],
                             "detail": str(e)[:200]}], {"runs": 0}
    return label, src, fails, info


# ---------------------------------------------------------------------------
# AST measurements
# ---------------------------------------------------------------------------

NEST = ("If", "While", "DoWhile", "For", "Switch", "Compound", "Label", "Case", "Default")
BASE_CLASSES = {"FileAST", "FuncDef", "Decl", "FuncDecl", "TypeDecl", "IdentifierType", "ParamList", "Compound", "ID", "Constant",
                "Assignment", "BinaryOp", "Typename"}


def ast_classes(node, acc=None, depth=0, md=None):
    """(set of node classes, max statement nesting)"""
    acc = set() if acc is None else acc
    md = [0] if md is None else md
    cls = type(node).__name__
    acc.add(cls)
    d = depth + (1 if cls in NEST and cls != "Compound" else 0)
    md[0] = max(md[0], d)
    for _, c in node.children():
        if isinstance(c, (list, tuple)):          # pycparser quirk: a list in a single-child slot
            acc.add("list-in-single-slot")
            for x in c:
                ast_classes(x, acc, d, md)
        else:
            ast_classes(c, acc, d, md)
    return acc, md[0]


def construct_of(src):
    """distinctive node classes of a (shrunk) unit"""
    try:
        cl, _ = ast_classes(quick_parse(src))
    except Exception:
        return "unparsed"
    rest = sorted(cl - BASE_CLASSES)
    if not rest:
        rest = sorted(cl & {"Assignment", "BinaryOp", "Constant"})
    return "+".join(rest[:4]) if rest else "plain"


# ---------------------------------------------------------------------------
# generators
# ---------------------------------------------------------------------------

V = S.PARAMS                       # x y z w i j n m

PREAMBLES = [
    "struct S { int a; int b; };", "struct S { int a; } gs;", "typedef int T;", "typedef struct { int q; } Q;", "enum E { A, B = 3, C };",
    "enum { K0, K1 } ge;", "int g(int a);", "int h();", "void nondet(void);", "extern int ext;", "int glob = 3;", "int arr[10];", "int *ptr;",
    "static int sg;", "const int cg = 1;", "union U { int a; char c; };", "int (*fp)(int);", "typedef int (*FP)(int, int);", "struct S;",
    "int g(int a), h2(int b);", "char *str = \"s\";", "int garr[2][2] = {{1, 2}, {3, 4}};", ";", "_Static_assert(1, \"m\");", "#pragma once\n",
    "struct { int a; } anon;", "unsigned long long big;", "volatile int vol;", "int f_proto(int, ...);", "inline int inl(int a) { return a; }",
]

SIGNATURES = [
    lambda n: f"void {n}(" + ", ".join(f"int {p}" for p in V) + ")",
    lambda n: f"int {n}(" + ", ".join(f"int {p}" for p in V) + ")",
    lambda n: f"static int {n}(" + ", ".join(f"int {p}" for p in V) + ")",
    lambda n: f"int *{n}(" + ", ".join(f"int {p}" for p in V) + ")",
    lambda n: f"int {n}(int x, int y, int z, int w, int i, int j, int n, int m, ...)",
    lambda n: f"int {n}(int x, int *y, int z[], int w, int i, int j, int n, int m)",
    lambda n: f"unsigned long {n}(unsigned x, long y, short z, char w, int i, int j, int n, int m)",
    lambda n: f"int {n}(x, y, z, w, i, j, n, m) int x, y, z, w; int i, j, n, m;",
    lambda n: f"int {n}(const int x, register int y, volatile int z, int w, int i, int j, int n, int m)",
    lambda n: f"struct S0 {{ int a; }} {n}(int x, int y, int z, int w, int i, int j, int n, int m)",
]
SIG_NOPARAM = [lambda n: f"void {n}(void)", lambda n: f"int {n}()", lambda n: f"{n}()", lambda n: f"int {n}(void)"]

LOCALS = "int x, y, z, w, i, j, n, m;"

EXPR_FORMS = ["y", "1", "y + z", "y * 1", "1 + 2", "-y", "y++", "++y", "y--", "!y", "sizeof(y)", "-1", "(int)y", "y + z + w", "g(y)", "arr[y]",
              "y ? z : 1", "*ptr", "&y", "y = z", "(y, z)", "y * (z + 1)", "-(-y)", "y < z", "y && z", "~y", "st.fld", "ptr->fld", "'a'", "1.5",
              "\"s\"", "sizeof(int)", "(char)1 + (long)2", "y + 1", "1 - y", "y - y", "y * y", "true", "false + y", "y, z++", "(y)", "((y + z))",
              "+y", "- -y", "!!y", "-y++", "(int)-y", "(int)(y++)", "x", "x + x", "x * y", "y + x", "1 + x",
              "(ptr + 1)[2]", "(*pp)[1]", "((int*)ptr)[0]", "\"abc\"[1]", "g(y)[1]", "st.arr[1]", "arr[1][2]", "ptr->a[1]", "(y ? arr : ptr)[0]",
              "(int){1}", "sizeof y++", "sizeof(int[3])", "_Alignof(int)", "y ?: z" if False else "y == z ? y : z", "*&y", "&arr[1]", "g(y, z)(1)",
              "fp(y)", "(*fp)(y)", "y << z", "y | z", "y / 0", "1 / 0", "y % z", "-1 - -1", "y + (z)", "(y) + (z)", "y + -z", "y + z++", "y++ + ++z"]
CASTS = ["(int)", "(long)", "(unsigned char)", "(int)(int)", "(int*)", "(T)", "(const int)", "(struct S)", "(void)"]

FAIL_BODIES = ["{0} = {0} + {1}; {1} = {0} + {0};", "{0} = {0} * {0};", "{0} = {1} + {1}; {1} = {0} * {0};", "{0} = {0} + {0};",
               "{1} = {0} + {1}; {0} = {1} + {1};", "{0} = {1} * {1}; {1} = {0} + {1};", "{0}++; {0} = {0} * {0};"]


class UnitGen:
    def __init__(self, rng, maxnest, heavy=False):
        self.r = rng
        self.maxnest = maxnest
        self.heavy = heavy
        self.k = 0

    def sg(self, edge=None, maxdepth=3):
        return S.Gen(self.r, edge=self.r.choice([0.15, 0.3, 0.45, 0.6]) if edge is None else edge, maxdepth=maxdepth)

    def v(self):
        return self.r.choice(V)

    # --- statement level pieces
    def cast_stmt(self):
        r = self.r
        e, c, x = r.choice(EXPR_FORMS), r.choice(CASTS), self.v()
        forms = [f"{x} = {c}{e};", f"{x} = {c}({e});", f"{c}{e};", f"{c}({e});", f"{x} = {c}({e}) + {self.v()};", f"{x} = {self.v()} * {c}({e});",
                 f"{x} = {c}({e}) - {c}({r.choice(EXPR_FORMS)});", f"return {c}({e});", f"if ({c}({e})) {x} = {self.v()};",
                 f"while ({c}({e})) {{ {x} = {x} + {self.v()}; }}", f"{x} = -{c}({e});", f"{x} = !{c}({e});", f"{x} = sizeof({c}({e}));",
                 f"{x} = {c}{c}({e});", f"{c}{x} = {e};", f"for ({x} = {c}({e}); {x} < {self.v()}; {x}++) {{ y = y + z; }}",
                 f"for (i = 0; i < {c}({e}); i++) {{ y = y + z; }}", f"do {{ {x} = {c}({e}); }} while ({c}{self.v()} > 0);", f"{x} = ({e});",
                 f"{x} = {e};", f"{e};", f"assert({c}({e}));", f"{x} = g({c}({e}));",
                 # increments / decrements as statements whose operand is not a plain identifier (pycparser does not check lvalues)
                 f"({e})++;", f"--({e});", f"({c}{e})--;", f"++{c}({e});", f"(-{x})++;", f"++{x}++;", f"--(!{x});"]
        return r.choice(forms)

    def failing_loop(self):
        r = self.r
        a, b = r.sample(V[:4], 2)
        body = r.choice(FAIL_BODIES).format(a, b)
        k = r.randrange(6)
        if k == 0:
            return f"while ({a} > 0) {{ {body} }}"
        if k == 1:
            return f"do {{ {body} }} while ({b} < 10);"
        if k == 2:
            return f"for (i = 0; i < n; i++) {{ {body} }}"
        if k == 3:
            return f"while ({b}) {body.split(';')[0]};"
        if k == 4:
            return f"if ({a} > {b}) {{ while ({a} > 0) {{ {body} }} }} else {{ while ({b} > 0) {{ {body} }} }}"
        return f"while ({a} > 0) {{ while ({b} > 0) {{ {body} }} {a} = {b} + {b}; }}"

    def dense_loop(self, nsites):
        """a loop whose body is a run of binary operations over few variables (many infinity paths: stresses the
        fixpoint, the delta graph and the choice complement)"""
        r = self.r
        vs = V[:r.choice([2, 3, 4])]

        def st(d):
            k = r.random()
            a, b, c = r.choice(vs), r.choice(vs), r.choice(vs)
            if k < 0.7:
                return f"{a} = {b} {r.choice('+-*')} {c};"
            if k < 0.8:
                return f"{a} = {b};"
            if k < 0.87:
                return f"{a}++;"
            if d < 1 and k < 0.94:
                return f"if ({a} > {b}) {{ {st(d + 1)} }} else {{ {st(d + 1)} }}"
            if d < 1:
                return f"while ({a} > 0) {{ {st(d + 1)} {st(d + 1)} }}"
            return f"{a} = {b} + {c};"
        body = " ".join(st(0) for _ in range(nsites))
        hd = r.choice([f"while ({r.choice(vs)} > 0)", "for (i = 0; i < n; i++)", f"while ({r.choice(vs)} < {r.choice(vs)})"])
        return f"{hd} {{ {body} }}" if not hd.startswith("do") else f"do {{ {body} }} while (x > 0);"

    def for_stmt(self):
        g = self.sg(edge=0.9)
        return f"{g.for_header()} {g.body(1)}"

    def const_stmt(self):
        r = self.r
        x = self.v()
        c = lambda: r.choice(["1", "2", "0", "-1", "(int)3", "'a'", "1.5", "0x10", "1u", "(long)(int)2", "sizeof(int)", "-(1)", "+2"])
        return r.choice([f"{x} = {c()} {r.choice('+-*')} {c()};", f"{x} = {c()};", f"{x} = {c()} {r.choice('+-*')} {self.v()};",
                         f"{x} = {self.v()} {r.choice('+-*')} {c()};", f"{x} = ({c()} + {c()}) * {c()};", f"{x} = (int)({c()} * {c()});",
                         f"{x} = {c()} / {c()};", f"{x} = {x} {r.choice('+-*')} {c()};"])

    def decl_stmt(self):
        self.k += 1
        k = self.k
        return self.r.choice([f"int d{k};", f"int d{k} = {self.v()};", f"int d{k}[3];", f"int *d{k};", f"int d{k} = 1, e{k};", f"int d{k}, e{k};",
                              f"static int d{k};", f"struct S d{k};", f"struct L{k} {{ int a; }} d{k};", f"enum {{ P{k}, R{k} }} d{k};",
                              f"typedef int T{k};", f"int d{k}(int);", f"extern int d{k};", f"const int d{k} = 2;", f"register int d{k};",
                              f"int d{k}[2] = {{1, 2}};", f"char *d{k} = \"s\";", f"unsigned d{k};", f"int d{k} = g({self.v()});",
                              f"int d{k} = {self.v()} + {self.v()};", f"struct {{ int a; }} d{k};", f"int (*d{k})(int);", f"T d{k};",
                              f"x = d{k};" if False else f"long long d{k};"])

    def any_stmt(self, depth=0):
        r = self.r
        k = r.randrange(20)
        if k < 7:
            return self.sg(maxdepth=max(1, 3 - depth)).stmt(depth)
        if k < 10:
            return self.cast_stmt()
        if k < 12:
            return self.failing_loop()
        if k < 14:
            return self.for_stmt()
        if k < 16:
            return self.const_stmt()
        if k < 18:
            return self.decl_stmt()
        return self.sg(edge=1.0).edge_simple()

    def nest(self, depth):
        """a chain of `depth` nested statements with material before/after at each level"""
        r = self.r
        g = self.sg()
        if depth <= 0:
            return " ".join(self.any_stmt(3) for _ in range(r.randint(0, 2)))
        inner = self.nest(depth - 1)
        pre = self.any_stmt(3) if r.random() < 0.3 else ""
        post = self.any_stmt(3) if r.random() < 0.3 else ""
        body = f"{{ {pre} {inner} {post} }}" if (pre or post or r.random() < 0.7 or not inner.strip()) else None
        if body is None:
            # an un-braced single statement body needs exactly one statement; keep braces unless inner is one statement
            body = f"{{ {inner} }}"
        k = r.randrange(12)
        c = g.cond()
        if k < 3:
            return f"while ({c}) {body}"
        if k < 5:
            return f"{g.for_header()} {body}"
        if k == 5:
            return f"do {body} while ({c});"
        if k == 6:
            return f"if ({c}) {body}"
        if k == 7:
            return f"if ({c}) {{ {self.any_stmt(3)} }} else {body}"
        if k == 8:
            return body
        if k == 9:
            return f"switch ({self.v()}) {{ case 1: {body} break; default: {self.any_stmt(3)} }}"
        if k == 10:
            self.k += 1
            return f"LB{self.k}: {body}"
        return f"if ({c}) {body} else {{ {self.any_stmt(3)} }}"

    def body(self, kind):
        r = self.r
        if kind == "empty":
            return r.choice(["", ";", "{ }", ";;", "return;", "{ { } }", "int q;", "return 0;"])
        if kind == "mixed":
            return "\n".join(self.any_stmt(0) for _ in range(r.randint(1, 6)))
        if kind == "casts":
            return "\n".join(self.cast_stmt() for _ in range(r.randint(1, 5)))
        if kind == "failing":
            n = r.randint(2, 4)
            parts = [self.failing_loop() for _ in range(n)]
            if r.random() < 0.5:
                parts.insert(r.randrange(len(parts) + 1), self.any_stmt(1))
            if r.random() < 0.3:
                parts.insert(0, f"{self.v()} = {r.randrange(9)};")
            return "\n".join(parts)
        if kind == "deep":
            d = r.randint(max(2, self.maxnest - 3), self.maxnest)
            return self.nest(d)
        if kind == "dense":
            return "\n".join(self.dense_loop(r.randint(2, 5 if (self.heavy and r.random() < 0.35) else 3)) for _ in range(r.randint(1, 2)))
        if kind == "fors":
            return "\n".join(self.for_stmt() for _ in range(r.randint(1, 4)))
        if kind == "consts":
            return "\n".join(self.const_stmt() for _ in range(r.randint(1, 5)))
        if kind == "decls":
            return "\n".join(r.choice([self.decl_stmt, self.decl_stmt, lambda: self.any_stmt(1)])() for _ in range(r.randint(1, 6)))
        if kind == "syntax":
            g = self.sg()
            return "\n".join(g.stmt(0) for _ in range(r.randint(1, 6)))
        raise ValueError(kind)

    def wide_function(self, name):
        """descriptive (long) identifiers, several of them flowing into one variable: wide bound expressions in the result display"""
        r = self.r
        words = ["accumulated", "total", "value", "first", "second", "third", "operand", "result", "counter", "buffer", "length", "index",
                 "temporary", "maximum", "offset", "previous", "current", "remaining"]
        names = []
        while len(names) < r.randint(4, 6):
            nm = "_".join(r.sample(words, r.randint(1, 3))) + (str(r.randrange(10)) if r.random() < 0.3 else "")
            if nm not in names:
                names.append(nm)
        tgt = names[0]
        body = [f"{tgt} = {names[1]} {r.choice('+*')} {names[2]};"]
        for v in names[3:]:
            if r.random() < 0.7 and len(body) < 3:
                body.append(f"{tgt} = {tgt} {r.choice('+*')} {v};")
        body.append(f"{names[-1]} = {names[1]} {r.choice('+*-')} {names[2]};")
        if r.random() < 0.4:
            body.append(f"while ({names[1]} > 0) {{ {names[2]} = {names[1]}; }}")
        r.shuffle(body)
        return f"int {name}(" + ", ".join("int " + v for v in names) + ")\n{\n" + "\n".join(body) + "\n}\n"

    def function(self, name, kind):
        r = self.r
        if r.random() < 0.8:
            sig = SIGNATURES[0](name) if r.random() < 0.6 else r.choice(SIGNATURES)(name)
            pre = ""
        else:
            sig = r.choice(SIG_NOPARAM)(name)
            pre = LOCALS + "\n" if r.random() < 0.8 else ""
        return f"{sig}\n{{\n{pre}{self.body(kind)}\n}}\n"

    # --- gen_prog function with insertions
    def gp_insert(self, name):
        r = self.r
        cfg = streams.cfg_for(r, 5)
        _, ss, vars_ = gen_prog.gen_function(r, cfg, name)
        n_ins = r.randint(0, 3)
        g = self.sg(edge=1.0)

        def lists(ss, acc):
            acc.append(ss)
            for s in ss:
                if s[0] == "block":
                    lists(s[1], acc)
                elif s[0] in ("while", "dowhile"):
                    if s[2][0] == "block":
                        lists(s[2][1], acc)
                elif s[0] == "if":
                    for b in (s[2], s[3]):
                        if b is not None and b[0] == "block":
                            lists(b[1], acc)
                elif s[0] == "for":
                    if s[4][0] == "block":
                        lists(s[4][1], acc)
            return acc

        def recond(ss):
            out = []
            for s in ss:
                if s[0] in ("while", "dowhile") and r.random() < 0.3:
                    s = (s[0], g.cond(edge=1.0), s[2])
                elif s[0] == "if" and r.random() < 0.3:
                    s = ("if", g.cond(edge=1.0), s[2], s[3])
                if s[0] == "block":
                    s = ("block", recond(s[1]))
                elif s[0] in ("while", "dowhile") and s[2][0] == "block":
                    s = (s[0], s[1], ("block", recond(s[2][1])))
                elif s[0] == "if":
                    t = ("block", recond(s[2][1])) if s[2][0] == "block" else s[2]
                    e = ("block", recond(s[3][1])) if (s[3] is not None and s[3][0] == "block") else s[3]
                    s = ("if", s[1], t, e)
                elif s[0] == "for" and s[4][0] == "block":
                    s = s[:4] + (("block", recond(s[4][1])),) + s[5:]
                out.append(s)
            return out
        import copy
        ss = recond(copy.deepcopy(ss))
        for _ in range(n_ins):
            ls = lists(ss, [])
            tgt = r.choice(ls)
            text = r.choice([g.edge_simple, self.cast_stmt, self.const_stmt, self.decl_stmt, self.for_stmt, self.failing_loop])()
            tgt.insert(r.randrange(len(tgt) + 1), ("s", text.replace("\n", " ") if not text.startswith("#") else ";"))
        return gen_prog.render(ss, vars_, name).replace("int f(", f"int {name}(")

    def unit(self):
        r = self.r
        kinds = ["mixed", "mixed", "casts", "failing", "deep", "fors", "consts", "decls", "syntax", "empty", "gp", "gp", "dense", "wide"]
        nf = r.choice([1, 1, 1, 2, 2, 3, 4])
        pre = [r.choice(PREAMBLES) for _ in range(r.choice([0, 0, 1, 2, 4]))]
        parts, tags = list(pre), []
        for k in range(nf):
            kind = r.choice(kinds)
            tags.append(kind)
            name = f"f{k}" if r.random() < 0.95 else "f0"      # rarely: a duplicate name
            parts.append(self.gp_insert(name) if kind == "gp" else (self.wide_function(name) if kind == "wide" else self.function(name, kind)))
            if r.random() < 0.15:
                parts.append(r.choice(PREAMBLES))
        return "\n".join(parts), tags


def gen_units(ctx, n, maxnest):
    """n parseable units"""
    out, tries, rejected = [], 0, 0
    ug = UnitGen(ctx.rng, maxnest, heavy=ctx.thorough)
    while len(out) < n and tries < 6 * n + 50:
        tries += 1
        src, tags = ug.unit()
        try:
            quick_parse(src)
        except Exception:
            # the usual reason is one statement pycparser rejects: fall back to per-function filtering
            rejected += 1
            continue
        out.append((f"gen{len(out)}:" + ",".join(tags), src))
    return out, rejected


def form_sweep():
    """every expression form of the edge pool, deterministically, in every position that matters: as a statement, as a right-hand side,
    inside a loop, as a condition (so that no form depends on being drawn by the random units)"""
    out = []
    head = "void f(int x, int y, int z, int w, int n)\n{\n"
    for k, e in enumerate(EXPR_FORMS):
        src = head + f"  x = {e};\n  {e};\n  while (n > 0) {{ w = {e}; {e}; }}\n  if ({e}) {{ x = y + z; }}\n}}\n"
        try:
            quick_parse(src)
        except Exception:
            continue
        out.append((f"form{k}", src))
    return out


def repo_files():
    out = []
    for pat in ("c_files/**/*.c", "tests/examples/**/*.c", "tests/examples/*.c"):
        for p in sorted(glob.glob(os.path.join(vlib.REPO, pat), recursive=True)):
            try:
                txt = open(p, errors="replace").read()
            except OSError:
                continue
            if "#include" in txt:
                continue
            try:
                quick_parse(txt)
            except Exception:
                continue
            out.append(("file:" + os.path.relpath(p, vlib.REPO), txt))
    seen, uniq = set(), []
    for l, t in out:
        if t not in seen:
            seen.add(t)
            uniq.append((l, t))
    return uniq


# ---------------------------------------------------------------------------
# shrinking / reporting
# ---------------------------------------------------------------------------

def still_fails(src, f):
    try:
        r = run_config(src, f["mode"], f["strict"], f["fin"], limit=TIME_LIMIT if f["kind"] == "timeout" else 10)
    except Exception:
        return False
    return (not r.get("ok")) and r["exc"] == f["exc"] and r.get("node") == f.get("node")


def _parses(t):
    try:
        quick_parse(t)
        return True
    except Exception:
        return False


def shrink_text(src, pred, budget=300):
    """fallback for units the generic tree cannot represent (pycparser puts a list in a single-child slot):
    greedy deletion of lines, then of `;`-terminated pieces inside a line; keeps parseability."""
    calls = [0]

    def ok(t):
        calls[0] += 1
        return calls[0] <= budget and _parses(t) and pred(t)
    cur = src
    progress = True
    while progress and calls[0] < budget:
        progress = False
        lines = cur.split("\n")
        # whole chunks first (functions are separated by a line holding "}" only)
        for size in (8, 4, 2, 1):
            i = 0
            while i < len(lines) and calls[0] < budget:
                cand = lines[:i] + lines[i + size:]
                if len(cand) < len(lines) and ok("\n".join(cand)):
                    lines, progress = cand, True
                else:
                    i += 1
        cur = "\n".join(lines)
        # pieces inside a line
        for li, line in enumerate(cur.split("\n")):
            parts = line.split("; ")
            if len(parts) < 2:
                continue
            k = 0
            while k < len(parts) and calls[0] < budget:
                cand_parts = parts[:k] + parts[k + 1:]
                ls = cur.split("\n")
                ls[li] = "; ".join(cand_parts)
                if cand_parts and ok("\n".join(ls)):
                    parts, cur, progress = cand_parts, "\n".join(ls), True
                else:
                    k += 1
    return cur


def shrink(src, f):
    if f["kind"] in ("harness",):
        return src
    budget = 40 if f["kind"] == "timeout" else 400
    pred = lambda t: still_fails(t, f)
    s = None
    try:
        s = S.shrink_source(src, pred, budget=budget)
    except Exception:
        s = None
    if not s or s == src or not still_fails(s, f):
        try:
            s = shrink_text(src, pred, budget=budget)
        except Exception:
            s = src
    return s if (s and still_fails(s, f)) else src


def failing_record(label, src, f, shrunk=None):
    """signature: [C06, exception type | Timeout | json:... | missing-function, innermost pymwp function (for a timeout: the
    long-running pymwp function that was interrupted), class of the AST node the crashing function was handling (None when the
    crash is not tied to a node)]; the node classes of the shrunk unit are given in the text only (they depend on the shrinker)."""
    small = shrunk if shrunk is not None else src
    cons = construct_of(small)
    sig = ["C06", f["exc"][0], f["exc"][1], f.get("node")]
    what = (f"{f['kind']}: {'Analysis' if f['mode'] == 'func' else 'LoopAnalysis'}.run(strict={f['strict']}, fin={f['fin']}) "
            f"{f['detail']} in {f['exc'][1]}" + (f" while handling a {f['node']} node" if f.get("node") else "") + f" [unit: {cons}]")
    return {"what": what, "sig": sig,
            "input": {"src": small, "opts": {"mode": f["mode"], "strict": f["strict"], "fin": f["fin"]},
                      "shrunk_from": src if small != src else None, "label": label},
            "expected": "a JSON-serialisable result naming every function with a body", "observed": f["detail"]}


def confirm_timeouts(items, limit):
    """a 20 s timeout inside the 16-process pool is re-run alone with a longer limit: finished -> only 'slow'"""
    out = []
    for label, src, f in items:
        try:
            r = run_config(src, f["mode"], f["strict"], f["fin"], limit=limit)
        except Exception:
            r = {"ok": True}
        out.append((label, src, f, r))
    return out


# ---------------------------------------------------------------------------
# plugin entry points
# ---------------------------------------------------------------------------

def run(ctx):
    vlib.import_pymwp()
    t0 = time.time()
    maxnest = ctx.n(6, 10)
    corpus = [(c["label"], c["src"]) for c in vlib.corpus("C06") if ctx.thorough or c.get("tier") != "thorough"]
    corpus += [("stream:" + l, s) for l, s in streams.CORPUS]
    files = repo_files()
    gen, rejected = gen_units(ctx, ctx.n(700, 5000), maxnest)
    sweep = form_sweep()
    units = corpus + files + sweep + gen
    results = vlib.pool_map(_worker, units, procs=16, chunksize=4)

    failing, by_sig = [], {}
    runs = exc = timeouts = unparsed = 0
    strict_funcs = strict_refused = 0
    hist, tagh, nest_h = {}, {}, {}
    slow = 0.0
    tmo = []
    for label, src, fails, info in results:
        if fails is None:
            unparsed += 1
            continue
        runs += info.get("runs", 0)
        strict_funcs += info.get("strict_funcs", 0)
        strict_refused += info.get("strict_refused", 0)
        slow = max(slow, info.get("slowest", 0.0))
        try:
            cl, md = ast_classes(quick_parse(src))
        except Exception:
            cl, md = set(), 0
        for c in cl - BASE_CLASSES:
            hist[c] = hist.get(c, 0) + 1
        nest_h[md] = nest_h.get(md, 0) + 1
        if label.startswith("gen"):
            for t in label.split(":", 1)[1].split(","):
                tagh[t] = tagh.get(t, 0) + 1
        for f in fails:
            if f["kind"] == "timeout":
                tmo.append((label, src, f))
                continue
            exc += 1
            by_sig.setdefault((f["exc"][0], f["exc"][1], f.get("node")), []).append((label, src, f))
    # timeouts: one confirmation run per distinct unit, alone, with three times the limit
    slow_runs, seen_units, slow_large = 0, set(), []
    tmo.sort(key=lambda x: len(x[1]))
    todo = []
    for label, src, f in tmo:
        if f["exc"][1] == KNOWN_SLOW:
            # interrupted inside the exponential enumeration of Choices.build_choices: the open known finding
            # (known_findings.json); same signature, no confirmation run (it would only cost a minute)
            timeouts += 1
            by_sig.setdefault((f["exc"][0], f["exc"][1], None), []).append((label, src, f))
            continue
        if src not in seen_units and len(todo) < ctx.n(3, 12):
            seen_units.add(src)
            todo.append((label, src, f))
    for label, src, f, r in confirm_timeouts(todo, 3 * TIME_LIMIT):
        if r.get("ok"):
            slow_runs += 1
            slow = max(slow, r.get("dt", 0.0))
        elif r["kind"] == "timeout" and max_sites(src) > SMALL_SITES:
            slow_large.append({"label": label, "sites": max_sites(src), "opts": {"mode": f["mode"], "strict": f["strict"], "fin": f["fin"]},
                               "interrupted_in": r["detail"]})
        elif r["kind"] == "timeout":
            timeouts += 1
            f = dict(f, **r)
            by_sig.setdefault((f["exc"][0], f["exc"][1], None), []).append((label, src, f))
        else:
            exc += 1
            f = dict(f, **r)
            by_sig.setdefault((f["exc"][0], f["exc"][1], f.get("node")), []).append((label, src, f))
    # one shrunk report per signature
    for key, lst in sorted(by_sig.items(), key=lambda kv: str(kv[0])):
        lst.sort(key=lambda x: len(x[1]))
        label, src, f = lst[0]
        small = src if f["kind"] == "timeout" else shrink(src, f)
        rec = failing_record(label, src, f, small)
        rec["count"] = len(lst)
        rec["other_inputs"] = [x[1] for x in lst[1:3]]
        failing.append(rec)

    # correspondence on the typed fragment (model RErr <-> real raise: codes 1 / 2)
    mism, coq_cases = [], []
    progs = streams.programs(ctx, ctx.n(40, 400), max_sites=5) + [(l, s) for l, s in corpus if l.startswith("typed:")]
    for label, src in progs:
        for fin, strict in ((False, False), (True, False)):
            r = e2e.run_real(src, fin, strict)
            if r["exc"]:
                if r["exc"][0] != "ParseError" and not any(x["sig"][1:3] == r["exc"][:2] for x in failing):
                    failing.append({"what": f"raise: Analysis.run raised {r['exc']} on a typed-fragment program", "sig": ["C06", r["exc"][0], r["exc"][1], None],
                                    "input": {"src": src, "opts": {"mode": "func", "fin": fin, "strict": strict}}, "expected": "a result", "observed": r["exc"]})
                continue
            for name, d in r["funcs"].items():
                if d is None or d["typed"] is None or d["index"] > 5:
                    continue
                coq_cases.append((f"{label} fin={fin}\n{src}", d, not fin))
    if ctx.coq_ok:
        mism += e2e.coq_compare("c06", coq_cases)
    else:
        mism.append("model not built: analysis correspondence not run")

    samples = [gen[0][1], gen[len(gen) // 2][1]] if gen else []
    stats = {"evaluations": runs, "distinct_nontrivial": len({s for l, s in units if l.startswith("gen") or l.startswith("file")}),
             "rule": "translation units (corpus, repo example files parseable without cpp, generated: gen_prog functions with inserted edge statements/"
                     "conditions, syntax_common statements, casts around every expression form, runs of failing loops, nesting chains, odd for-headers, "
                     "constant folding, declarations, preambles, odd signatures, several functions) x {Analysis.run, LoopAnalysis.run} x {strict} x {fin}; "
                     "each on a fresh parse under a 20 s limit (a run over the limit is repeated alone with 60 s before it counts as a hang); "
                     "distinct_nontrivial = distinct generated or repo units",
             "units": len(units), "corpus_units": len(corpus), "repo_files": len(files), "generated_units": len(gen),
             "generator_rejected_by_pycparser": rejected, "unparsed": unparsed,
             "constructs_histogram": dict(sorted(hist.items(), key=lambda kv: -kv[1])), "unit_kinds": tagh,
             "nesting_histogram": {str(k): v for k, v in sorted(nest_h.items())}, "max_nesting_generated": maxnest,
             "strict_refused_share": round(strict_refused / max(1, strict_funcs), 3), "strict_functions": strict_funcs,
             "exceptions": exc, "timeouts": timeouts, "runs_over_20s_that_finished_within_60s": slow_runs,
             "runs_over_60s_on_functions_with_more_than_6_sites_not_counted_as_hangs": slow_large[:10],
             "slowest_run_s": round(slow, 2), "distinct_failure_signatures": len(failing),
             "coq_model_cases": len(coq_cases), "samples": samples, "search_wall_s": round(time.time() - t0, 1)}
    if gen and (len(hist) < 25 or max(nest_h) < maxnest - 1):
        mism.append(f"generator degenerate: {len(hist)} construct classes, max nesting {max(nest_h)}")
    return {"failing": failing, "corr_mismatch": mism, "stats": stats}


def replay(ctx, data):
    vlib.import_pymwp()
    inp = data.get("input", data)
    o = inp.get("opts", {})
    src = inp["src"]
    confs = [(o["mode"], o.get("strict", False), o.get("fin", False))] if "mode" in o else CONFIGS
    for mode, strict, fin in confs:
        try:
            r = run_config(src, mode, strict, fin, limit=o.get("limit", TIME_LIMIT))
        except Exception as e:
            return {"what": f"unparseable replay input: {e}", "sig": ["C06", "harness", None, None], "input": inp}
        if not r.get("ok"):
            if r["kind"] == "timeout" and r["exc"][1] != KNOWN_SLOW and max_sites(src) > SMALL_SITES:
                continue          # slow on a function with many sites: not a hang (see max_sites)
            f = {"mode": mode, "strict": strict, "fin": fin, **r}
            return failing_record(inp.get("label", "replay"), src, f)
    return None
