"""C19: loop discovery and program statistics match the source.

Search (real pymwp vs independent Python oracles):
  * loops: an independent recursive loop finder over the pycparser AST (preorder through FuncDef body,
    Compound, If, While, DoWhile, For, Switch, Case, Default) vs FindLoops(f).loops, by object identity;
  * loop mode: which loops LoopAnalysis.run inspects (source order, non-empty body), each result equal
    to the result of the loop analysed alone in a fresh one-statement function;
  * statistics: Result.program.{n_func,n_loops,n_func_vars,n_loop_vars} vs the oracle's counts;
  * loc: a character-by-character line oracle vs file_io.loc on generated texts (comments, literals
    holding comment markers, escapes) and on random texts over / * " ' \\ newline letters.
Correspondence (Coq model vs real code, compared inside Coq): FindLoops paths, Variables.vars,
take_counts, the loops loop mode inspects (paths + cleaned trees), del_comments / loc.
"""
import os
import shutil
import tempfile
from copy import deepcopy

import vlib
import pyc_dump as D
import syntax_common as S

ID = "C19"
LEVEL = "proof"
TRANSLATORS = ["syntax", "pycschema"]
MODEL_TARGETS = ["theories/Syntax.vo", "theories/FileIO.vo"]
EXPLANATION = ("Theorems over all trees of the generic pycparser tree type and all texts: FindLoops = filter of the loop nodes over the "
               "specified preorder (source order, any depth), statistics = the counts of that traversal, loc = number of physical lines "
               "holding code outside comments. The model is tied to the code by generated method tables and by correspondence on "
               "generated programs / texts; the real code is searched against independent oracles.")
ASSUMPTIONS = ["pycparser parse trees are represented faithfully by tools/pyc_dump.py (round trip validated on every run)",
               "texts are ASCII; universal-newline decoding of open(..., 'r') is modelled by universal_nl",
               "'counted for' is what Coverage.loop_compat accepts (the property does not define it further)"]
LEVEL_TEXT = ("Machine-checked theorems about an executable Coq model of FindLoops / the variable walker / take_counts / del_comments / loc over "
              "all trees and all texts; model tied to /repo by generated tables + differential correspondence.")
LEVEL_NOTE = "Trusted: Coq kernel, translators, pyc_dump, the correspondence harness. No axioms."
TECHNIQUE = "Coq proof over a generic AST + independent-oracle search + model/code correspondence"

THROUGH = {"Compound": ["block_items"], "If": ["iftrue", "iffalse"], "While": ["stmt"], "DoWhile": ["stmt"],
           "For": ["stmt"], "Switch": ["stmt"], "Case": ["stmts"], "Default": ["stmts"], "FuncDef": ["body"]}


# ---------------------------------------------------------------------------
# independent oracles
# ---------------------------------------------------------------------------

def oracle_preorder(n, out):
    out.append(n)
    for slot in THROUGH.get(type(n).__name__, []):
        v = getattr(n, slot)
        if v is None:
            continue
        for c in (v if isinstance(v, list) else [v]):
            oracle_preorder(c, out)
    return out


def oracle_loops(f, counted):
    return [n for n in oracle_preorder(f, []) if type(n).__name__ in ("While", "DoWhile")
            or (type(n).__name__ == "For" and counted(n))]


SUP_UNARY = {"+", "-", "!", "sizeof", "++", "--", "p++", "p--"}


def oracle_vars(n, counted_x):
    """independent reading of 'the variables of a function / loop' (returns a set)"""
    t = type(n).__name__
    V = lambda x: oracle_vars(x, counted_x) if x is not None else set()
    if t == "FuncDef":
        ps = n.decl.type.args.params if getattr(n.decl.type, "args", None) is not None else []
        return set().union(*[V(p) for p in ps], V(n.body))
    if t == "Compound":
        return set().union(*[V(x) for x in (n.block_items or [])])
    if t == "Decl":
        s = {n.name} if (type(n.type).__name__ == "TypeDecl" and n.name) else set()
        return s | V(n.init)
    if t == "Assignment":
        return V(n.lvalue) | V(n.rvalue)
    if t == "BinaryOp":
        return V(n.left) | V(n.right)
    if t == "UnaryOp":
        return V(n.expr) if n.op in SUP_UNARY else set()
    if t == "Cast":
        return V(n.expr)
    if t == "ID":
        return set() if n.name in ("true", "false") else {n.name}
    if t == "If":
        return V(n.iftrue) | V(n.iffalse)
    if t in ("While", "DoWhile"):
        return V(n.cond) | V(n.stmt)
    if t == "For":
        x = counted_x(n)
        return ({x} if x else set()) | V(n.stmt)
    if t == "Return":
        return V(n.expr)
    if t in ("ExprList",):
        return set().union(*[V(x) for x in (n.exprs or [])])
    if t in ("Case", "Default"):
        return set().union(*[V(x) for x in (n.stmts or [])])
    return set()


def empty_stmt(s):
    """`;` or a block of nothing but such statements"""
    return s is None or type(s).__name__ == "EmptyStatement" or (type(s).__name__ == "Compound" and all(empty_stmt(c) for c in (s.block_items or [])))


def empty_body(loop):
    return empty_stmt(loop.stmt)


def line_oracle(text, merge=False):
    """number of physical lines holding a non-blank character outside comments; character and string
    literals are opaque (their content is code).  None when a comment or literal is not closed.
    merge=True is the variant in which a block comment does not end the line it starts on (used only to
    NAME the cause of a disagreement)."""
    n, i, cnt, cur = len(text), 0, 0, False
    while i < n:
        c = text[i]
        if c == "/" and i + 1 < n and text[i + 1] == "/":
            while i < n and text[i] != "\n":
                i += 1
            continue
        if c == "/" and i + 1 < n and text[i + 1] == "*":
            j = text.find("*/", i + 2)
            if j < 0:
                return None
            for ch in text[i:j + 2]:
                if ch == "\n" and not merge:
                    cnt += cur
                    cur = False
            i = j + 2
            continue
        if c in "'\"":
            j = i + 1
            while j < n and text[j] != c:
                j += 2 if text[j] == "\\" else 1
            if j >= n:
                return None
            for ch in text[i:j + 1]:
                if ch == "\n":
                    cnt += cur
                    cur = False
                elif not ch.isspace():
                    cur = True
            i = j + 1
            continue
        if c == "\n":
            cnt += cur
            cur = False
        elif not c.isspace():
            cur = True
        i += 1
    return cnt + cur


def gen_text(rng):
    """lexically closed C-like text: code chunks, comments (some spanning lines), literals with markers"""
    parts = []
    for _ in range(rng.randint(1, 8)):
        k = rng.random()
        if k < 0.35:
            parts.append(rng.choice(["x = y + 1;", "int a;", "a", "{", "}", " ", "\t", "  x;", "f(a, b);", "x / y", "a * b", "x = 2 * 3 / 4;"]))
        elif k < 0.55:
            parts.append("\n")
        elif k < 0.65:
            parts.append("// " + rng.choice(["c", "/* c */", "\" q", "' q", "x = 1;", ""]))
            parts.append("\n")
        elif k < 0.85:
            body = rng.choice(["c", " c ", "", "*", "/", "// c", "\" c", "c\nc", "\n", " \n ", "a\n\nb", "x = 1;\ny = 2;", "**", "* /"])
            parts.append("/*" + body + "*/")
        elif k < 0.93:
            parts.append('"' + rng.choice(["s", "/* c */", "// c", "\\\"", "'", "a\\\\", "", "a\\\nb", "*/"]) + '"')
        else:
            parts.append("'" + rng.choice(["c", "\\'", "\"", "/", "*", "\\\\", "\\n"]) + "'")
    return "".join(parts)


def raw_text(rng):
    alph = ['/', '*', '"', "'", '\\', '\n', 'a', 'b', ' ', ';', '\t']
    return "".join(rng.choices(alph, [6, 5, 2, 2, 2, 4, 3, 2, 3, 1, 1], k=rng.randint(0, 40)))


def strip_times(d):
    if isinstance(d, dict):
        return {k: strip_times(v) for k, v in d.items() if k not in ("start_time", "end_time") and not k.startswith("dur_")}
    if isinstance(d, list):
        return [strip_times(x) for x in d]
    return d


# ---------------------------------------------------------------------------
# the checks on one file
# ---------------------------------------------------------------------------

def gen_file(rng, edge):
    nf = rng.choice([1, 1, 2, 3])
    srcs = []
    for k in range(nf):
        g = S.Gen(rng, edge=edge, maxdepth=rng.choice([2, 3, 4]))
        srcs.append(g.func(name=f"f{k}", lo=1, hi=5))
    if rng.random() < 0.3:
        srcs.insert(rng.randrange(len(srcs) + 1), "int glob;\n")
    if rng.random() < 0.2:
        srcs.append("void proto(int a);\n")
    return "".join(srcs)


def dup_loops(src, rng):
    """the same file with one loop of some function repeated VERBATIM elsewhere in that function (after it at the top level of the body,
    or inside another loop's block): two loops with one text are two loops.  Returns None when the file has no loop."""
    from pycparser import c_ast, c_generator
    try:
        ast = S.parse(src)
    except Exception:
        return None
    cands = []
    for f in ast.ext:
        if not isinstance(f, c_ast.FuncDef) or not isinstance(f.body, c_ast.Compound):
            continue
        loops, blocks_ = [], [f.body]
        stack = [f.body]
        while stack:
            n = stack.pop()
            for _, c in n.children():
                if isinstance(c, (c_ast.While, c_ast.DoWhile, c_ast.For)):
                    loops.append(c)
                    if isinstance(c.stmt, c_ast.Compound):
                        blocks_.append(c.stmt)
                stack.append(c)
        if loops:
            cands.append((loops, blocks_))
    if not cands:
        return None
    loops, blocks_ = rng.choice(cands)
    for _ in range(rng.choice([1, 1, 2])):
        l = deepcopy(rng.choice(loops))
        blk = rng.choice(blocks_)
        items = list(blk.block_items or [])
        items.insert(rng.randrange(len(items) + 1), l)
        blk.block_items = items
    try:
        out = c_generator.CGenerator().visit(ast)
        S.parse(out)
        return out
    except Exception:
        return None


def check_file(src, deep=True):
    """Returns (list of failing dicts, info dict).  deep: also run loop mode + 'alone' re-analysis."""
    from pymwp import Coverage, Variables, FindLoops, Analysis, LoopAnalysis, Result
    from pymwp.parser import Parser as pr
    fails, info = [], {"nloops": 0, "nfunc": 0, "depth": 0, "exc": None}

    def fail(what, sig, exp, obs, extra=None):
        fails.append({"what": what, "sig": ["C19"] + sig, "input": {"kind": "file", "src": src, **(extra or {})},
                      "expected": exp, "observed": obs})
    try:
        ast = S.parse(src)
    except Exception:
        return fails, None

    def counted(n):
        return Coverage.loop_compat(n)[0]

    def counted_x(n):
        ok, x = Coverage.loop_compat(n)
        return x if ok else None
    fs = [e for e in ast.ext if type(e).__name__ == "FuncDef" and type(e.body).__name__ == "Compound"]
    info["nfunc"] = len(fs)
    # -- loops + counts oracles (they call loop_compat, which may raise: D13) ------------
    try:
        o_loops = {id(f): oracle_loops(f, counted) for f in fs}
        o_fvars = [oracle_vars(f, counted_x) for f in fs]
        o_lvars = [oracle_vars(l, counted_x) for f in fs for l in o_loops[id(f)]]
    except Exception as e:
        info["exc"] = vlib.exc_sig(e)
        fail(f"raises: loop discovery raises {type(e).__name__} ({vlib.exc_sig(e)[1]})",
             ["raises", type(e).__name__, str(vlib.exc_sig(e)[1])], "a list of loops", vlib.exc_sig(e))
        return fails, info
    info["nloops"] = sum(len(v) for v in o_loops.values())
    for f in fs:
        idx = D.path_index(f)
        info["depth"] = max([info["depth"]] + [sum(1 for s, _ in idx[id(l)] if s == "stmt") for l in o_loops[id(f)]])
        try:
            real = FindLoops(f).loops
        except Exception as e:
            fail(f"raises: FindLoops raises {type(e).__name__}", ["raises", type(e).__name__, str(vlib.exc_sig(e)[1])], "loops", vlib.exc_sig(e))
            continue
        want = o_loops[id(f)]
        if [id(x) for x in real] != [id(x) for x in want]:
            extra = [x for x in real if id(x) not in {id(w) for w in want}]
            missing = [x for x in want if id(x) not in {id(r) for r in real}]
            if extra:
                fail(f"extra-loop: FindLoops records a {type(extra[0]).__name__} node as a loop",
                     ["extra-loop", type(extra[0]).__name__], [idx.get(id(x)) for x in want], [idx.get(id(x)) for x in real])
            elif missing:
                fail(f"missing-loop: FindLoops misses a {type(missing[0]).__name__} loop",
                     ["missing-loop", type(missing[0]).__name__], [idx.get(id(x)) for x in want], [idx.get(id(x)) for x in real])
            else:
                fail("order: FindLoops order differs from source order", ["order"], [idx.get(id(x)) for x in want], [idx.get(id(x)) for x in real])
    # -- statistics -------------------------------------------------------------------------
    if fails:
        return fails, info          # the counts depend on the loop list just shown wrong
    try:
        res = Result()
        Analysis.take_counts(ast, res)
        got = {k: getattr(res.program, k) for k in ("n_func", "n_loops", "n_func_vars", "n_loop_vars")}
        want = {"n_func": len(fs), "n_loops": info["nloops"], "n_func_vars": sum(len(v) for v in o_fvars),
                "n_loop_vars": sum(len(v) for v in o_lvars)}
        for k in want:
            if got[k] != want[k]:
                detail = ""
                if k == "n_func_vars":
                    for f, ov in zip(fs, o_fvars):
                        rv = set(Variables(f).vars)
                        if rv != ov:
                            detail = f" (function {f.decl.name}: tool-only {sorted(rv - ov)}, oracle-only {sorted(ov - rv)})"
                            break
                fail(f"count: {k} = {got[k]}, source has {want[k]}{detail}", ["count", k], want, got)
                break
    except Exception as e:
        fail(f"raises: take_counts raises {type(e).__name__}", ["raises", type(e).__name__, str(vlib.exc_sig(e)[1])], "counts", vlib.exc_sig(e))
    if not deep or fails:
        return fails, info
    # -- loop mode ----------------------------------------------------------------------------
    ast2 = deepcopy(ast)
    fs2 = [e for e in ast2.ext if type(e).__name__ == "FuncDef" and type(e.body).__name__ == "Compound"]
    want_order = {f.decl.name: [id(l) for l in oracle_loops(f, counted)] for f in fs2}
    # the text of every loop as the source has it (generated before the tool touches anything), for the loops the gate accepts as they are
    from pymwp import Coverage
    from pymwp.parser import Parser as _pr
    pristine = {}
    for f in fs2:
        for l in oracle_loops(f, counted):
            try:
                pristine[id(l)] = _pr.to_c(l) if Coverage(deepcopy(l)).full else None
            except Exception:
                pristine[id(l)] = None
    node_of = {id(l): l for f in fs2 for l in oracle_loops(f, counted)}
    inspected = []
    orig_inspect = LoopAnalysis.inspect

    def insp(node):
        inspected.append(id(node))
        return orig_inspect(node)
    LoopAnalysis.inspect = staticmethod(insp)
    try:
        try:
            r = vlib.with_timeout(LoopAnalysis.run, 20, ast2)
        except vlib.CaseTimeout:
            info["timeout"] = True
            return fails, info
        except Exception as e:
            fail(f"raises: LoopAnalysis.run raises {type(e).__name__}", ["raises", type(e).__name__, str(vlib.exc_sig(e)[1])], "a result", vlib.exc_sig(e))
            return fails, info
    finally:
        LoopAnalysis.inspect = staticmethod(orig_inspect)
    pos = 0
    for f in fs2:
        name = f.decl.name
        exp = [i for i in want_order[name] if not empty_body(node_of[i])]      # state AFTER the tool's removal pass
        got_ids = inspected[pos:pos + len(r.loops[name].loops)] if name in r.loops else []
        pos += len(got_ids)
        if got_ids != exp:
            extra = [i for i in got_ids if i not in exp]
            if extra and extra[0] in node_of and empty_body(node_of[extra[0]]):
                fail("empty-body: loop mode reports a loop whose body is the empty block {}",
                     ["empty-body-reported", type(node_of[extra[0]].stmt).__name__], len(exp), len(got_ids))
            else:
                fail("loop-results: loop mode results are not the non-empty loops in source order", ["loop-results"], len(exp), len(got_ids))
            return fails, info
        # text: a loop the gate accepts as it is is reported with the text the source has for it
        for lid, lr in zip(got_ids, r.loops[name].loops):
            want_c = pristine.get(lid)
            if want_c is not None and "".join(want_c.split()) != "".join((lr.loop_code or "").split()):
                fail("loop-text: the reported loop text is not the text of the loop in the source (the loop is fully supported, nothing is to be removed)",
                     ["loop-text"], want_c, lr.loop_code)
                return fails, info
        # alone: re-analyse the first loops as whole programs
        for k, lr in enumerate(r.loops[name].loops[:2]):
            code = lr.loop_code
            names = sorted(S_ids(code))
            src1 = "void g(" + ", ".join(f"int {v}" for v in names) + ")\n{\n" + code + "\n}\n"
            try:
                a1 = S.parse(src1)
                r1 = vlib.with_timeout(LoopAnalysis.run, 20, a1)
                d1 = strip_times(r1.loops["g"].loops[0].to_dict()) if r1.loops["g"].loops else None
            except vlib.CaseTimeout:
                continue
            except Exception as e:
                d1 = {"exc": vlib.exc_sig(e)}
            d0 = strip_times(lr.to_dict())

            def norm(d):
                # the loop text is re-generated from a re-parse of itself: pycparser's generator is not idempotent on
                # labelled empty statements (`L: ;` gains a `;` at every round trip), so the text is compared modulo
                # white space and empty statements; everything else (variables, flags, bounds, choices) exactly
                if isinstance(d, dict) and isinstance(d.get("loop_code"), str):
                    d = dict(d)
                    d["loop_code"] = "".join(d["loop_code"].split()).replace(";;", ";").replace(";;", ";").replace("{;", "{").replace(";}", "}")
                return d
            if norm(d0) != norm(d1):
                fail("alone: a loop's result differs from the result of the loop analysed as the whole program", ["alone"], d1, d0,
                     {"loop": code})
                return fails, info
    return fails, info


def S_ids(code):
    import re
    kw = {"while", "do", "for", "if", "else", "int", "return", "break", "continue", "sizeof", "long", "void", "assert", "assume"}
    return {w for w in re.findall(r"[A-Za-z_][A-Za-z0-9_]*", code) if w not in kw}


def shrink_src(src, sig):
    """delete statements / hoist bodies while a failure with the same sig remains"""
    deep = sig[1] in ("empty-body-reported", "loop-results", "alone", "loop-text")

    def bad(s):
        try:
            fs, info = check_file(s, deep=deep)
        except Exception:
            return False
        return any(f["sig"] == sig for f in fs)
    return S.shrink_source(src, bad, budget=300 if not deep else 120)


def check_text(text, d):
    from pymwp import file_io
    want = line_oracle(text)
    if want is None:
        return None, None
    p = os.path.join(d, "t.c")
    with open(p, "w", newline="") as f:
        f.write(text)
    got = file_io.loc(p)
    return want, got


def loc_sig(text, got):
    """the disagreement is explained by 'a block comment spanning a line break joins the code before
    and after it into one line' iff the merge variant of the oracle gives the tool's number"""
    if line_oracle(text, merge=True) == got:
        return ["C19", "loc", "multiline-comment-between-code"]
    return ["C19", "loc", "other"]


def shrink_text(text, d, sig):
    cur = text
    changed = True
    while changed:
        changed = False
        for i in range(len(cur)):
            cand = cur[:i] + cur[i + 1:]
            w, g = check_text(cand, d)
            if w is not None and w != g and loc_sig(cand, g) == sig:
                cur, changed = cand, True
                break
    return cur


# ---------------------------------------------------------------------------
# correspondence
# ---------------------------------------------------------------------------

def corr_counts_file(items):
    def build():
        rows = []
        for tree, cnt in items:
            exp = "None" if cnt is None else f"(Some ({cnt[0]}, {cnt[1]}, {cnt[2]}, {cnt[3]}))"
            rows.append("(" + D.cq_tree(tree) + ",\n  " + exp + ")")
        t = "Definition cases : list (node * option (nat * nat * nat * nat)) :=\n [" + ";\n ".join(rows) + "].\n"
        t += ("Definition m_counts (t : node) := match take_counts t with Some c => Some (n_func c, n_loops c, n_func_vars c, n_loop_vars c) | None => None end.\n"
              "Definition q_eqb (a b : nat * nat * nat * nat) := let '(a1, a2, a3, a4) := a in let '(b1, b2, b3, b4) := b in Nat.eqb a1 b1 && Nat.eqb a2 b2 && Nat.eqb a3 b3 && Nat.eqb a4 b4.\n"
              "Eval vm_compute in bad (fun c => let '(t, e) := c in opt_eqb q_eqb (m_counts t) e) 0 cases.\n")
        return t
    return S._with_interning(build)


def corr_loopmode_file(items):
    def build():
        rows = []
        for tree, strict, exp in items:
            if exp is None:
                e = "None"
            else:
                e = "(Some " + D._fold([f"({D.cq_path(p)}, {D.cq_tree(t)})" for p, t in exp], "cons", "nil") + ")"
            rows.append("(" + D.cq_tree(tree) + ", " + ("true" if strict else "false") + ",\n  " + e + ")")
        t = "Definition cases : list (node * bool * option (list (path * node))) :=\n [" + ";\n ".join(rows) + "].\n"
        t += ("Fixpoint pn_eqb (a b : list (path * node)) : bool := match a, b with [], [] => true | (p, x) :: a', (q, y) :: b' => path_eqb p q && node_eqb x y && pn_eqb a' b' | _, _ => false end.\n"
              "Definition m_lm (t : node) (s : bool) := match loop_mode_loops t s with Ok l => Some l | Err _ => None end.\n"
              "Eval vm_compute in bad (fun c => let '(t, s, e) := c in opt_eqb pn_eqb (m_lm t s) e) 0 cases.\n")
        return t
    return S._with_interning(build)


def corr_text_file(cases):
    def codes(s):
        return "[" + "; ".join(str(ord(c)) for c in s) + "]"
    return ("From Coq Require Import String Ascii List Bool Arith.\nFrom PM Require Import FileIO.\nImport ListNotations.\n"
            "Definition mk (l : list nat) : chars := map ascii_of_nat l.\n"
            "Fixpoint ceqb (a b : chars) : bool := match a, b with [], [] => true | x :: a', y :: b' => Ascii.eqb x y && ceqb a' b' | _, _ => false end.\n"
            "Fixpoint bad {A} (chk : A -> bool) (n : nat) (l : list A) : list nat := match l with [] => [] | x :: t => if chk x then bad chk (S n) t else n :: bad chk (S n) t end.\n"
            "Definition cases : list (list nat * list nat * nat) := [" + ";\n".join(f"({codes(t)}, {codes(dc)}, {lc})" for t, dc, lc in cases) + "].\n"
            "Eval vm_compute in bad (fun c => let '(t, d, n) := c in ceqb (del_comments (mk t)) (mk d)) 0 cases.\n"
            "Eval vm_compute in bad (fun c => let '(t, d, n) := c in Nat.eqb (loc_file (mk t)) n) 0 cases.\n")


def real_loopmode(f, strict):
    """[(path in f, tree at inspect time)] | None when the real selection raises"""
    from pymwp import FindLoops, LoopAnalysis
    node = deepcopy(f)
    idx = D.path_index(node)
    try:
        out = []
        for loop in FindLoops(node).loops:
            p = idx.get(id(loop))
            if LoopAnalysis.syntax_check(loop, strict):
                out.append((p, D.dump(loop)))
        return out
    except Exception:
        return None


# ---------------------------------------------------------------------------
# run
# ---------------------------------------------------------------------------

def run(ctx):
    vlib.import_pymwp()
    from pymwp import Analysis, Result, file_io
    rng = ctx.rng
    failing, mism, seen = [], [], set()
    stats = {"evaluations": 0, "samples": []}
    d = tempfile.mkdtemp()
    try:
        # ---- search: files ---------------------------------------------------------------
        nfiles = ctx.n(260, 2500)
        dist = {"files": 0, "functions": 0, "loops": 0, "max_loop_nesting": 0, "files_with_loops": 0, "raises": 0, "timeouts": 0, "deep": 0}
        nontriv = 0
        corpus = [c["src"] for c in vlib.corpus("C19") if c.get("kind") == "file"]
        for k in range(nfiles):
            src = corpus[k] if k < len(corpus) else gen_file(rng, rng.choice([0.0, 0.15, 0.3, 0.5]))
            if k >= len(corpus) and k % 4 == 1:
                src2 = dup_loops(src, rng)          # a loop repeated verbatim in its function
                if src2:
                    src = src2
                    dist["with_repeated_loop"] = dist.get("with_repeated_loop", 0) + 1
            deep = (k % 3 == 0)
            fs, info = check_file(src, deep=deep)
            if info is None:
                continue
            dist["files"] += 1
            dist["functions"] += info["nfunc"]
            dist["loops"] += info["nloops"]
            dist["files_with_loops"] += info["nloops"] > 0
            dist["max_loop_nesting"] = max(dist["max_loop_nesting"], info["depth"])
            dist["raises"] += info["exc"] is not None
            dist["timeouts"] += bool(info.get("timeout"))
            dist["deep"] += deep
            nontriv += info["nloops"] > 0
            stats["evaluations"] += 1
            if len(stats["samples"]) < 2 and info["nloops"] >= 2:
                stats["samples"].append({"src": src, "loops": info["nloops"]})
            for f in fs:
                key = tuple(f["sig"])
                if key in seen:
                    continue
                seen.add(key)
                small = shrink_src(src, f["sig"])
                fs2, _ = check_file(small, deep=True)
                g = next((x for x in fs2 if x["sig"] == f["sig"]), f)
                g["shrunk_from"] = src
                failing.append(g)
        # ---- search: loc -------------------------------------------------------------------
        ntext = ctx.n(3000, 40000)
        tdist = {"texts": 0, "closed": 0, "with_multiline_comment": 0, "with_literal": 0}
        for k in range(ntext):
            text = gen_text(rng) if k % 2 == 0 else raw_text(rng)
            w, g = check_text(text, d)
            tdist["texts"] += 1
            if w is None:
                continue
            tdist["closed"] += 1
            tdist["with_multiline_comment"] += ("/*" in text and "\n" in text)
            tdist["with_literal"] += ('"' in text or "'" in text)
            stats["evaluations"] += 1
            nontriv += ("/" in text or '"' in text)
            if w != g:
                sig = loc_sig(text, g)
                if tuple(sig) in seen:
                    continue
                seen.add(tuple(sig))
                small = shrink_text(text, d, sig)
                w2, g2 = check_text(small, d)
                failing.append({"what": f"loc: file_io.loc counts {g2} lines, {w2} lines hold code ({sig[2]})", "sig": sig,
                                "input": {"kind": "text", "text": small}, "expected": w2, "observed": g2, "shrunk_from": text})
        stats["file_distribution"] = dist
        stats["text_distribution"] = tdist
        # ---- correspondence ------------------------------------------------------------------
        ncorr = 0
        if ctx.coq_ok:
            # walkers (loops + vars) on functions
            nw = ctx.n(240, 1500)
            items = []
            for _ in range(nw):
                src, ast = S.gen_parsed(rng, edge=rng.choice([0.0, 0.2, 0.4, 0.6]))
                f = ast.ext[-1]
                items.append((D.dump(f), S.observe_walkers(f), src))
            bad, errs = S.run_sharded("c19_w", [(t, o) for t, o, _ in items], S.walker_file, 5, per=120)
            mism += errs
            for nm, b in zip(("coverage", "ast_mod", "vars", "find_loops", "wf_pyc"), bad):
                if nm in ("vars", "find_loops", "wf_pyc") and b:
                    mism.append(f"walkers/{nm}: model differs from the real walker on {len(b)} of {len(items)} functions, e.g. {items[b[0]][2]!r}")
            ncorr += len(items)
            stats["walker_exceptions"] = sum(1 for _, o, _ in items if o["exc"])
            # take_counts on files
            citems = []
            for _ in range(ctx.n(120, 800)):
                src = gen_file(rng, rng.choice([0.0, 0.2, 0.5]))
                try:
                    ast = S.parse(src)
                    tree = D.dump(ast)
                except Exception:
                    continue
                try:
                    r = Result()
                    Analysis.take_counts(ast, r)
                    cnt = (r.program.n_func, r.program.n_loops, r.program.n_func_vars, r.program.n_loop_vars)
                except Exception:
                    cnt = None
                citems.append((tree, cnt, src))
            bad, errs = S.run_sharded("c19_c", [(t, c) for t, c, _ in citems], corr_counts_file, 1, per=60)
            mism += errs
            if bad[0]:
                mism.append(f"take_counts: model differs on {len(bad[0])} of {len(citems)} files, e.g. {citems[bad[0][0]][2]!r}")
            ncorr += len(citems)
            # loop mode selection
            litems = []
            for _ in range(ctx.n(160, 1000)):
                src, ast = S.gen_parsed(rng, edge=rng.choice([0.0, 0.2, 0.4]))
                f = ast.ext[-1]
                strict = rng.random() < 0.4
                litems.append((D.dump(f), strict, real_loopmode(f, strict), src))
            bad, errs = S.run_sharded("c19_l", [(t, s, e) for t, s, e, _ in litems], corr_loopmode_file, 1, per=80)
            mism += errs
            if bad[0]:
                mism.append(f"loop mode selection: model differs on {len(bad[0])} of {len(litems)} functions, e.g. {litems[bad[0][0]][3]!r} strict={litems[bad[0][0]][1]}")
            ncorr += len(litems)
            stats["loopmode_cases_with_loops"] = sum(1 for _, _, e, _ in litems if e)
            # texts
            tcases = []
            for k in range(ctx.n(500, 4000)):
                t = raw_text(rng) if k % 3 else gen_text(rng)
                if rng.random() < 0.08:
                    t = t.replace("\n", "\r\n") if rng.random() < 0.5 else t.replace("\n", "\r")
                p = os.path.join(d, "t.c")
                with open(p, "w", newline="") as fh:
                    fh.write(t)
                tcases.append((t, file_io.del_comments(t), file_io.loc(p)))
            jobs = [(f"c19_t_{i // 500}", corr_text_file(tcases[i:i + 500])) for i in range(0, len(tcases), 500)]
            res = vlib.coq_eval_many(jobs)
            for i, (name, _) in enumerate(jobs):
                ok, out = res[name]
                lists = S.parse_index_lists(out) if ok else []
                if not ok or len(lists) != 2:
                    mism.append(f"{name}.v did not evaluate: {out[-300:]}")
                    continue
                for nm, b in zip(("del_comments", "loc"), lists):
                    if b:
                        mism.append(f"file_io/{nm}: model differs on {len(b)} texts, e.g. {tcases[i * 500 + b[0]][0]!r}")
            ncorr += len(tcases)
        else:
            mism.append("model not built: correspondence not run")
        stats["evaluations"] += ncorr
        stats["correspondence_cases"] = ncorr
        stats["distinct_nontrivial"] = nontriv
        stats["rule"] = ("search: generated files (1-3 functions, nesting <= 4, edge constructs incl. switch / labels / typedef / pragma / "
                         "non-counted for) checked against an independent loop finder, variable counter and (every third file) loop-mode "
                         "result list + re-analysis of each loop alone; generated and random texts against a line oracle. "
                         "non-trivial = files with at least one loop + closed texts containing a comment or literal marker")
    finally:
        shutil.rmtree(d, ignore_errors=True)
    return {"failing": failing, "corr_mismatch": mism, "stats": stats}


def replay(ctx, data):
    vlib.import_pymwp()
    inp = data.get("input", data)
    if inp.get("kind") == "text":
        d = tempfile.mkdtemp()
        try:
            w, g = check_text(inp["text"], d)
        finally:
            shutil.rmtree(d, ignore_errors=True)
        if w is not None and w != g:
            return {"what": f"loc: file_io.loc counts {g} lines, {w} lines hold code", "sig": loc_sig(inp["text"], g),
                    "input": inp, "expected": w, "observed": g}
        return None
    fs, _ = check_file(inp["src"], deep=True)
    want = data.get("sig")
    for f in fs:
        if want is None or f["sig"] == want:
            return f
    return fs[0] if fs else None
