"""C13: analysing one function is unaffected by anything analysed before.

Level "other": the property lives partly in the Python runtime (object identity, hash seeds), so the
Coq part is a partial proof and the decisive part is differential.

  proved (props/C13.v)   on the reference-level model coq/theories/RefModel.v (monomial objects = allocation stamps,
                 a heap of (scalar, deltas) by stamp, copy allocates, add shares the right operand's monomials,
                 times allocates, identity_matrix = the two shared stamps of ZERO/UNIT, fixpoint, W/L corrections
                 as in-place writes): every stamp written by the correction that follows Relation.fixpoint was
                 allocated inside that fixpoint call; nothing allocated before the call -- ZERO/UNIT, the loop
                 body's relation, earlier results, the caller's relation -- is written by the whole pipeline
                 (including the in-place writes of add / sort_monomials); and the Coq model of Analysis.func is a
                 function of (function, stop), so its value at a position of a history is its value alone.
  history        (a) random sequences of analyses in ONE process (Analysis.run fin/strict on/off, LoopAnalysis.run,
                 same program twice, many functions per file, functions with unsupported / edge syntax, corpus files
                 of /repo/c_files), every result
                 (to_dict minus timestamps, dictionaries as mappings) compared with a run of the same
                 (program, options) in a process in which nothing was analysed before; functions of a
                 many-function file also against the file holding that function alone; ZERO/UNIT compared (ids,
                 list ids, scalars, deltas) after every step; the caller's AST compared before/after (generated C
                 text and structural dump) when the gate fully supports the file or strict=True.
  seeds          (b) the fresh runs repeated under PYTHONHASHSEED=0..3 (quick) / 0..15 (thorough): equal as
                 mappings; a pure key-order difference is counted in the statistics, not reported.
  aliasing       (c) in instrumented histories every Monomial gets an allocation serial (the model's stamp) and a
                 write barrier: Relation.fixpoint results must consist of monomials allocated inside the call;
                 every scalar written by while_correction / loop_correction must be allocated inside the enclosing
                 fixpoint, must not be reachable from ZERO/UNIT, from any earlier result, nor from any relation
                 that existed when the fixpoint started; no write at all may hit a monomial allocated before the
                 current top-level analysis call.
  correspondence (d) in-history function-mode results compared with the Coq model Analysis.analyse (e2e.coq_compare);
                 (e) RefModel.v against the real objects: add / times / copy on generated and aliased polynomials
                 and fixpoint+correction on generated and analysis-captured relations -- provenance (which result
                 monomial IS which operand monomial), values, the ordered list of written monomials and the final
                 state of every pre-existing monomial, compared inside Coq.
"""
import json
import os
import pickle
import random
import re
import subprocess
import sys
import tempfile
import shutil
import time

sys.path.insert(0, os.path.dirname(os.path.dirname(os.path.abspath(__file__))))
import vlib  # noqa: E402

ID = "C13"
LEVEL = "other"
MODEL_TARGETS = ["theories/RefModel.vo", "theories/Analysis.vo"]
TRANSLATORS = ["semiring", "rules"]
LEVEL_TEXT = ("Partial proof + history-mode differential runs. Proved in Coq (closed, no axioms) on a reference-level model of "
              "monomial.py/polynomial.py/matrix.py/relation.py in which a Monomial object is its allocation stamp and the heap maps stamps "
              "to (scalar, deltas): for every heap, every loop-body relation (whatever it aliases) and every fuel, the relation returned by "
              "Relation.fixpoint contains only monomials allocated inside the call; every monomial written by while_correction / "
              "loop_correction applied to it was allocated inside the call; no object allocated before the call -- the monomials of "
              "matrix.ZERO/UNIT, of the loop body's relation, of earlier results, of the caller's accumulated relation -- has a field "
              "changed by fixpoint+correction (this covers the in-place scalar writes of Polynomial.add and sort_monomials as well); "
              "Polynomial.add never writes to a pre-existing monomial outside its argument and its result holds only fresh monomials and "
              "monomials of its argument; times returns only fresh monomials; the Coq model of Analysis.func is a function of (function, "
              "stop) at every position of every history. The reference model abstracts: identity of Polynomial objects and of Python "
              "lists (a polynomial is an immutable list of stamps), the delta graph, variable names (inside fixpoint both operands have "
              "the same variable list, so homogenisation returns them unchanged), Relation.sum/composition with DIFFERENT variable lists "
              "(homogenisation re-uses cell objects and identity cells; not in the theorem, covered by the write barrier of the "
              "differential part), and everything outside relation/polynomial code (syntax walkers, Result objects, Choices, hash seeds). "
              "Checked, not proved: the real process -- results after random histories vs. fresh processes, hash seeds, ZERO/UNIT and the "
              "caller's AST before/after, object-identity discipline of the real monomials (allocation serials + write barrier), the "
              "reference model against the real objects, the analysis model against in-history results.")
LEVEL_NOTE = ("Trusted: Coq kernel; translators rules/semiring (W/L predicates of the corrections are the generated ones); CPython object "
              "identity and os.fork (a forked child of a process that only imported pymwp counts as a fresh process); the harness wrappers "
              "(Monomial.__init__/__setattr__, Relation.__init__/fixpoint/while_correction/loop_correction are wrapped in harness "
              "processes only). No axioms.")
TECHNIQUE = ("Coq frame/provenance proof over a heap-and-stamp model + history-mode differential runs against fresh processes + hash-seed sweep + "
             "object-identity instrumentation (allocation serials, write barrier) + model/code comparison inside Coq (vm_compute)")
EXPLANATION = "see LEVEL_TEXT"
ASSUMPTIONS = ["histories are sequences of Analysis.run / LoopAnalysis.run calls on parsed files (the documented entry points); results are compared through to_dict() minus start_time/end_time at every level",
               "a fresh process = a fork of an interpreter that imported pymwp and pycparser and analysed nothing (one fork per (program, options))",
               "hash seeds 0..3 (quick) / 0..15 (thorough)",
               "corpus files of /repo/c_files contain no preprocessor directive; comments are removed by the harness before pycparser.CParser"]

HERE = os.path.abspath(__file__)
SLOW_CORPUS = ("infinite_4", "infinite_6", "infinite_8", "notinfinite_8", "notinfinite_7", "long", "explosion", "infinite_5", "infinite_7")


# ---------------------------------------------------------------------------------------------
# shared helpers (harness process and workers)
# ---------------------------------------------------------------------------------------------

def canon(x):
    """to_dict() value with the timestamps removed at every level"""
    if isinstance(x, dict):
        return {k: canon(v) for k, v in x.items() if k not in ("start_time", "end_time")}
    if isinstance(x, (list, tuple)):
        return [canon(v) for v in x]
    return x


def ordered(x):
    """serialisation that keeps dictionary key order (to tell a key-order difference from a value difference)"""
    return json.dumps(x, sort_keys=False, default=str)


def strip_comments(t):
    t = re.sub(r"/\*.*?\*/", " ", t, flags=re.S)
    return re.sub(r"//[^\n]*", " ", t)


def sdump(node):
    """structural dump of a pycparser tree (class, attributes, named children), coordinates ignored"""
    if node is None:
        return None
    return (type(node).__name__, tuple((a, repr(getattr(node, a))) for a in node.attr_names),
            tuple((nm, sdump(ch)) for nm, ch in node.children()))


def to_c(ast):
    from pycparser import c_generator
    try:
        return c_generator.CGenerator().visit(ast)
    except Exception as e:      # a tree the generator cannot print is still compared structurally
        return "<c_generator: %s>" % type(e).__name__


def job_key(job):
    return json.dumps([job["src"], job["kind"], bool(job.get("fin")), bool(job.get("strict"))])


def gate_full(src):
    """does the syntax gate fully support every function of the file (=> no ast_mod expected)?  Computed on a
    separate parse so that the probe cannot touch the tree under test."""
    from pycparser import CParser, c_ast
    from pymwp.syntax import Coverage
    try:
        ast = CParser().parse(src)
        return all(Coverage(f).full for f in ast.ext if isinstance(f, c_ast.FuncDef))
    except Exception:
        return False


def run_job(job, keep=None):
    """one analysis call of the real code.  Returns the observable record."""
    from pycparser import CParser
    from pymwp import Analysis, LoopAnalysis
    src, kind, fin, strict = job["src"], job["kind"], bool(job.get("fin")), bool(job.get("strict"))
    rec = {"res": None, "exc": None, "ast_text_same": None, "ast_struct_same": None, "full": None}
    try:
        ast = CParser().parse(src)
    except Exception as e:
        rec["exc"] = ["ParseError", str(e)[:80]]
        return rec
    rec["full"] = gate_full(src)
    before = (to_c(ast), sdump(ast))
    try:
        if kind == "F":
            res = vlib.with_timeout(lambda: Analysis.run(ast, fin=fin, strict=strict), job.get("timeout", 25))
        else:
            res = vlib.with_timeout(lambda: LoopAnalysis.run(ast, strict=strict), job.get("timeout", 25))
        rec["res"] = canon(res.to_dict())
        if keep is not None:
            keep.append(res)
    except vlib.CaseTimeout:
        rec["exc"] = ["Timeout", None]
    except Exception as e:
        rec["exc"] = vlib.exc_sig(e)
    rec["ast_text_same"] = (to_c(ast) == before[0])
    rec["ast_struct_same"] = (sdump(ast) == before[1])
    return rec


def run_job_coq(job, keep=None):
    """the same call made through e2e.run_real (which also reads the analysed function into the typed grammar), with
    Analysis.run wrapped to observe the Result object and the caller's tree."""
    import e2e
    from pymwp import Analysis
    src, fin, strict = job["src"], bool(job.get("fin")), bool(job.get("strict"))
    rec = {"res": None, "exc": None, "ast_text_same": None, "ast_struct_same": None, "full": gate_full(src)}
    stash = {}
    orig = Analysis.run

    def cap(ast, *a, **k):
        stash["ast"] = ast
        stash["before"] = (to_c(ast), sdump(ast))
        r = orig(ast, *a, **k)
        stash["res"] = r
        return r
    Analysis.run = staticmethod(cap)
    try:
        rr = e2e.run_real(src, fin, strict, timeout=job.get("timeout", 25))
    finally:
        Analysis.run = staticmethod(orig)
    if rr["exc"]:
        rec["exc"] = rr["exc"] if rr["exc"][0] != "ParseError" else ["ParseError", rr["exc"][1]]
    if "res" in stash:
        rec["res"] = canon(stash["res"].to_dict())
        if keep is not None:
            keep.append(stash["res"])
    if "ast" in stash:
        rec["ast_text_same"] = (to_c(stash["ast"]) == stash["before"][0])
        rec["ast_struct_same"] = (sdump(stash["ast"]) == stash["before"][1])
    d = (rr.get("funcs") or {}).get("f")
    if d is not None and d.get("typed") is not None and d["index"] <= 5 and not rr["exc"]:
        rec["coq_case"] = (e2e.strip(d), not fin)
    return rec


def consts_snapshot():
    from pymwp import matrix
    out = []
    for p in (matrix.ZERO, matrix.UNIT):
        out.append((id(p), id(p.list), tuple(id(m) for m in p.list),
                    tuple((m.scalar, tuple(m.deltas), id(m.deltas)) for m in p.list)))
    return tuple(out)


def consts_ok(snap):
    from pymwp import matrix
    z, u = matrix.ZERO, matrix.UNIT
    lit = (len(z.list) == 1 and z.list[0].scalar == "o" and z.list[0].deltas == [] and
           len(u.list) == 1 and u.list[0].scalar == "m" and u.list[0].deltas == [])
    return bool(lit and consts_snapshot() == snap)


# ---------------------------------------------------------------------------------------------
# instrumentation of the real objects (worker processes only)
# ---------------------------------------------------------------------------------------------

class Instr:
    """allocation serials (= the stamps of RefModel.v) + write barrier + wrappers of fixpoint / corrections"""
    CAP = 40000

    def __init__(self):
        self.serial = 0
        self.run_epoch = 0
        self.step = -1
        self.registry = []           # relations created during the current top-level call (strong refs)
        self.prev = {}               # id -> monomial reachable from an earlier returned result (strong refs)
        self.consts = {}
        self.corr_stack = []
        self.viol = []
        self.n = {"monomials": 0, "writes": 0, "fixpoints": 0, "fix_monomials": 0, "corrections": 0, "corr_writes": 0,
                  "explicit_pre_sets": 0, "explicit_pre_skipped": 0, "prev_result_monomials": 0}

    def violation(self, kind, detail):
        if len(self.viol) < 20:
            self.viol.append({"step": self.step, "kind": kind, "detail": detail})

    def install(self):
        from pymwp import Monomial, Relation, matrix
        I = self
        for k, p in enumerate((matrix.ZERO, matrix.UNIT)):
            for m in p.list:
                object.__setattr__(m, "_c13_serial", -2 + k)
                object.__setattr__(m, "_c13_done", True)
                I.consts[id(m)] = m
        o_init = Monomial.__init__

        def m_init(m, *a, **k):
            object.__setattr__(m, "_c13_serial", I.serial)
            I.serial += 1
            o_init(m, *a, **k)
            object.__setattr__(m, "_c13_done", True)

        def m_setattr(m, name, value):
            d = m.__dict__
            if "_c13_done" in d and (name == "scalar" or name == "deltas"):
                I.on_write(m, name, d.get(name), value)
            object.__setattr__(m, name, value)
        Monomial.__init__ = m_init
        Monomial.__setattr__ = m_setattr

        r_init = Relation.__init__

        def rel_init(r, *a, **k):
            r_init(r, *a, **k)
            if type(r) is Relation:
                I.registry.append(r)
        Relation.__init__ = rel_init

        o_fix = Relation.fixpoint

        def fix(rel):
            epoch = I.serial
            pre = I.snapshot_registry()
            res = o_fix(rel)
            I.n["fixpoints"] += 1
            for row in res.matrix:
                for p in row:
                    for m in p.list:
                        I.n["fix_monomials"] += 1
                        if m.__dict__.get("_c13_serial", -9) < epoch:
                            I.violation("fixpoint-result-not-fresh", {"serial": m.__dict__.get("_c13_serial"), "epoch": epoch,
                                                                        "monomial": [m.scalar, list(m.deltas)], "id": id(m)})
            res._c13 = (epoch, pre)
            return res
        Relation.fixpoint = fix

        def wrap_corr(name):
            orig = getattr(Relation, name)

            def corr(rel, *a, **k):
                log = []
                I.corr_stack.append(log)
                try:
                    return orig(rel, *a, **k)
                finally:
                    I.corr_stack.pop()
                    I.check_corr(rel, name, log)
            setattr(Relation, name, corr)
        wrap_corr("while_correction")
        wrap_corr("loop_correction")

    def snapshot_registry(self):
        tot = 0
        for r in self.registry:
            for row in r.matrix:
                for p in row:
                    tot += len(p.list)
                    if tot > self.CAP:
                        self.n["explicit_pre_skipped"] += 1
                        return None
        self.n["explicit_pre_sets"] += 1
        return {id(m): m for r in self.registry for row in r.matrix for p in row for m in p.list}

    def on_write(self, m, name, old, new):
        self.n["writes"] += 1
        ser = m.__dict__.get("_c13_serial", -9)
        if ser < self.run_epoch:
            self.violation("write-to-older-object", {"field": name, "old": repr(old), "new": repr(new), "serial": ser,
                                                      "run_epoch": self.run_epoch, "id": id(m), "is_const": id(m) in self.consts})
        if self.corr_stack:
            self.corr_stack[-1].append((m, name, old, new))

    def check_corr(self, rel, name, log):
        self.n["corrections"] += 1
        tag = getattr(rel, "_c13", None)
        if tag is None:
            self.violation("correction-without-fixpoint", {"correction": name})
            return
        epoch, pre = tag
        for (m, field, old, new) in log:
            self.n["corr_writes"] += 1
            ser = m.__dict__.get("_c13_serial", -9)
            info = {"correction": name, "field": field, "old": repr(old), "new": repr(new), "serial": ser, "fix_epoch": epoch,
                    "id": id(m), "deltas": list(m.deltas)}
            if ser < epoch:
                self.violation("corrected-monomial-older-than-fixpoint", info)
            if id(m) in self.consts:
                self.violation("corrected-monomial-is-ZERO/UNIT", info)
            if id(m) in self.prev:
                self.violation("corrected-monomial-in-earlier-result", info)
            if pre is not None and id(m) in pre:
                self.violation("corrected-monomial-reachable-before-fixpoint", info)

    def begin_run(self, step):
        self.step = step
        self.run_epoch = self.serial
        self.registry = []

    def end_run(self, results):
        self.n["monomials"] = self.serial
        for res in results:
            for fr in getattr(res, "relations", {}).values():
                rel = getattr(fr, "relation", None)
                if rel is None or len(self.prev) > 5 * self.CAP:
                    continue
                for row in rel.matrix:
                    for p in row:
                        for m in p.list:
                            self.prev[id(m)] = m
        self.n["prev_result_monomials"] = len(self.prev)
        self.registry = []


class WriteLog:
    """light version for the reference-model stream: ordered log of post-construction scalar writes"""

    def __init__(self):
        self.log = []

    def install(self):
        from pymwp import Monomial, matrix
        L = self
        for p in (matrix.ZERO, matrix.UNIT):
            for m in p.list:
                object.__setattr__(m, "_c13_done", True)
        o_init = Monomial.__init__

        def m_init(m, *a, **k):
            o_init(m, *a, **k)
            object.__setattr__(m, "_c13_done", True)

        def m_setattr(m, name, value):
            if name == "scalar" and "_c13_done" in m.__dict__:
                L.log.append((m, m.__dict__.get("scalar"), value))
            object.__setattr__(m, name, value)
        Monomial.__init__ = m_init
        Monomial.__setattr__ = m_setattr


# ---------------------------------------------------------------------------------------------
# workers
# ---------------------------------------------------------------------------------------------

def worker_fresh(jobs):
    """every job in a fork of this process, which has imported the library and analysed nothing"""
    vlib.import_pymwp()
    import pycparser  # noqa: F401
    from pycparser import CParser, c_generator  # noqa: F401
    from pymwp import Analysis, LoopAnalysis  # noqa: F401
    from pymwp.syntax import Coverage  # noqa: F401
    out = []
    ntimeout = 0
    for job in jobs:
        r, w = os.pipe()
        pid = os.fork()
        if pid == 0:
            os.close(r)
            try:
                res = run_job(job)
            except BaseException as e:
                res = {"harness_exc": repr(e)}
            try:
                with os.fdopen(w, "wb") as f:
                    f.write(json.dumps(res, default=str).encode())
            finally:
                os._exit(0)
        os.close(w)
        with os.fdopen(r, "rb") as f:
            data = f.read()
        os.waitpid(pid, 0)
        out.append(json.loads(data) if data else {"harness_exc": "no data from child"})
        if (out[-1].get("exc") or [None])[0] == "Timeout":
            ntimeout += 1
        if ntimeout >= 3:      # a tree on which analyses hang: do not spend the budget on it
            out += [{"harness_exc": "skipped: 3 analyses timed out before"} for _ in jobs[len(out):]]
            break
    return out


def worker_history(spec):
    vlib.import_pymwp()
    snap = consts_snapshot()
    inst = None
    if spec.get("instrument"):
        inst = Instr()
        inst.install()
    out = []
    ntimeout = 0
    for k, job in enumerate(spec["steps"]):
        keep = []
        if inst:
            inst.begin_run(k)
        try:
            rec = run_job_coq(job, keep) if job.get("coq") else run_job(job, keep)
        except BaseException as e:
            rec = {"harness_exc": repr(e)}
        if inst:
            inst.end_run(keep)
        rec["consts_ok"] = consts_ok(snap)
        out.append(rec)
        if (rec.get("exc") or [None])[0] == "Timeout":
            ntimeout += 1
        if ntimeout >= 3:
            out += [{"harness_exc": "skipped: 3 analyses timed out before", "consts_ok": consts_ok(snap)} for _ in spec["steps"][len(out):]]
            break
    return {"steps": out, "viol": inst.viol if inst else [], "counts": inst.n if inst else {}, "hashseed": os.environ.get("PYTHONHASHSEED")}


# ---- reference model stream: real objects -> Coq cases ----

def _cq_mono(s, ds):
    import polylib as PL
    return PL.cq_mono((s, ds))


def _cq_on(x):
    return "(@None nat)" if x is None else "(Some %d)" % x


def _cq_obs_poly(obs):
    return vlib.cq_list(["(%s, %s)" % (_cq_on(pv), _cq_mono(s, ds)) for (pv, s, ds) in obs])


def _cq_heap(hp):
    return vlib.cq_list([_cq_mono(s, ds) for (s, ds) in hp])


def _cq_stamps(l):
    return vlib.cq_list([str(x) for x in l])


class Stamper:
    def __init__(self):
        from pymwp import matrix
        self.objs = [matrix.ZERO.list[0], matrix.UNIT.list[0]]
        self.index = {id(self.objs[0]): 0, id(self.objs[1]): 1}

    def st(self, m):
        if id(m) not in self.index:
            self.index[id(m)] = len(self.objs)
            self.objs.append(m)
        return self.index[id(m)]

    def heap(self):
        return [(m.scalar, [tuple(d) for d in m.deltas]) for m in self.objs]

    def obs(self, poly):
        return [(self.index.get(id(m)), m.scalar, [tuple(d) for d in m.deltas]) for m in poly.list]


def worker_refmodel(spec):
    vlib.import_pymwp()
    import polylib as PL
    from pymwp import Polynomial, Relation, DeltaGraph, matrix, Analysis
    from pycparser import CParser
    rng = random.Random(spec["seed"])
    wl = WriteLog()
    wl.install()
    ops, loops, labels_ops, labels_loops = [], [], [], []
    skipped = {"op_exc": 0, "loop_exc": 0, "loop_big": 0}

    def gen_poly():
        r = rng.random()
        if r < 0.08:
            return matrix.UNIT
        if r < 0.16:
            return matrix.ZERO
        if r < 0.3:
            return PL.from_data(PL.gen_malformed(rng, 3), raw=True) if rng.random() < 0.7 else PL.gen_leaf(rng, 3)
        return PL.gen_reachable(rng, rng.choice([1, 2, 2, 3]), 3, cap=24)

    # ---- add / times / copy ----
    t_start = time.time()
    for _ in range(spec["n_ops"]):
        if skipped["op_exc"] > 25 or time.time() - t_start > spec.get("budget_s", 120):
            skipped["aborted"] = 1
            break
        try:
            P = gen_poly()
            r = rng.random()
            if r < 0.12:
                Q = P                                        # the same object on both sides
            elif r < 0.3 and len(P.list) > 0:                # a polynomial sharing some monomials of P
                Q = Polynomial(*(rng.sample(P.list, rng.randrange(1, len(P.list) + 1)) + list(gen_poly().copy().list)))
                if rng.random() < 0.5:
                    Q.list = Polynomial.sort_monomials(Q.list) or Q.list
            else:
                Q = gen_poly()
            if not P.list or not Q.list:
                continue
            kind = rng.choice(["ADD", "ADD", "ADD", "TIMES", "TIMES", "COPY"])
            S = Stamper()
            p = [S.st(m) for m in P.list]
            q = [S.st(m) for m in Q.list]
            h0 = S.heap()
            R = vlib.with_timeout(lambda: P.add(Q) if kind == "ADD" else (P.times(Q) if kind == "TIMES" else P.copy()), 10)
            ops.append("(%s, %s, %s, %s, %s, %s)" % (kind, _cq_heap(h0), _cq_stamps(p), _cq_stamps(q), _cq_obs_poly(S.obs(R)), _cq_heap(S.heap())))
            labels_ops.append({"op": kind, "heap": h0, "p": p, "q": q})
        except BaseException as e:
            if isinstance(e, (KeyboardInterrupt, SystemExit)):
                raise
            skipped["op_exc"] += 1

    # ---- fixpoint + correction ----
    def snapshot_rel(rel):
        S = Stamper()
        body = [[[S.st(m) for m in cell.list] for cell in row] for row in rel.matrix]
        return S, body, S.heap()

    def emit_loop(S, body, h0, n, is_for, ell, fx, written, label):
        if len(h0) > 120 or n > 4 or sum(len(c.list) for row in fx.matrix for c in row) > 400:
            skipped["loop_big"] += 1
            return
        final = vlib.cq_list([vlib.cq_list([_cq_obs_poly(S.obs(c)) for c in row]) for row in fx.matrix])
        wr = vlib.cq_list(["(%s, %s)" % (_cq_on(S.index.get(id(m))), vlib.cq_list(["(%d, %d)" % (d[0], d[1]) for d in m.deltas]))
                           for (m, old, new) in written])
        bod = vlib.cq_list([vlib.cq_list([_cq_stamps(c) for c in row]) for row in body])
        loops.append("(%s, %d, %d, %s, %s, (%s, %s, %s))" % (vlib.cq_bool(is_for), n, ell, _cq_heap(h0), bod, final, wr, _cq_heap(S.heap())))
        labels_loops.append(label)

    for _ in range(spec["n_loops"]):
        if skipped["loop_exc"] > 15 or time.time() - t_start > 2 * spec.get("budget_s", 120):
            skipped["aborted"] = 1
            break
        try:
            n = rng.choice([1, 2, 2, 3])
            cells = []
            mat = []
            for i in range(n):
                row = []
                for j in range(n):
                    r = rng.random()
                    if r < 0.3:
                        c = matrix.UNIT if i == j else matrix.ZERO
                    elif r < 0.4 and cells:
                        c = rng.choice(cells)                # the same Polynomial object in two cells
                    else:
                        c = PL.gen_reachable(rng, rng.choice([0, 1, 1, 2]), 3, cap=10)
                    cells.append(c)
                    row.append(c)
                mat.append(row)
            vs = ["v%d" % i for i in range(n)]
            rel = Relation(vs, mat)
            S, body, h0 = snapshot_rel(rel)
            fx = vlib.with_timeout(rel.fixpoint, 10)
            is_for = rng.random() < 0.5
            ell = rng.randrange(n)
            mark = len(wl.log)
            if is_for:
                fx.loop_correction(vs[ell], DeltaGraph())
            else:
                fx.while_correction(DeltaGraph())
            emit_loop(S, body, h0, n, is_for, ell, fx, wl.log[mark:], {"random": [[S.obs(c) for c in row] for row in mat], "for": is_for, "ell": ell})
        except BaseException as e:
            if isinstance(e, (KeyboardInterrupt, SystemExit)):
                raise
            skipped["loop_exc"] += 1

    # ---- relations captured from real analyses ----
    o_fix = Relation.fixpoint

    def fix(rel):
        S, body, h0 = snapshot_rel(rel)
        res = o_fix(rel)
        res._c13cap = (S, body, h0, len(rel.variables))
        return res
    Relation.fixpoint = fix
    cur = {"src": None}

    def wrap(name, is_for):
        orig = getattr(Relation, name)

        def corr(rel, *a, **k):
            cap = getattr(rel, "_c13cap", None)
            mark = len(wl.log)
            out = orig(rel, *a, **k)
            if cap is not None:
                S, body, h0, n = cap
                ell = rel.variables.index(a[0]) if is_for else 0
                emit_loop(S, body, h0, n, is_for, ell, rel, wl.log[mark:], {"captured_from": cur["src"], "for": is_for})
            return out
        setattr(Relation, name, corr)
    wrap("while_correction", False)
    wrap("loop_correction", True)
    for src in spec["srcs"]:
        cur["src"] = src
        if time.time() - t_start > 3 * spec.get("budget_s", 120):
            skipped["aborted"] = 1
            break
        try:
            vlib.with_timeout(lambda: Analysis.run(CParser().parse(src), fin=True), 20)
        except BaseException as e:
            if isinstance(e, (KeyboardInterrupt, SystemExit)):
                raise
    del wl.log[:]
    return {"ops": ops, "loops": loops, "labels_ops": labels_ops, "labels_loops": labels_loops, "skipped": skipped}


def _main():
    mode, fin, fout = sys.argv[1], sys.argv[2], sys.argv[3]
    with open(fin, "rb") as f:
        spec = pickle.load(f)
    import logging
    logging.disable(logging.CRITICAL)
    res = {"fresh": worker_fresh, "history": worker_history, "refmodel": worker_refmodel}[mode](spec)
    with open(fout, "wb") as f:
        pickle.dump(res, f)


def spawn(mode, spec, tmp, tag, hashseed=0):
    fin, fout = os.path.join(tmp, f"{tag}.in"), os.path.join(tmp, f"{tag}.out")
    with open(fin, "wb") as f:
        pickle.dump(spec, f)
    env = dict(os.environ)
    env["PYTHONHASHSEED"] = str(hashseed)
    env["PYMWP_REPO"] = vlib.REPO
    env["PYTHONPATH"] = os.pathsep.join([os.path.dirname(os.path.dirname(HERE)), vlib.REPO])
    p = subprocess.Popen([vlib.PY, HERE, mode, fin, fout], env=env, stdout=subprocess.DEVNULL, stderr=subprocess.PIPE, cwd=tmp)
    return p, fout


def collect(p, fout, timeout):
    try:
        _, err = p.communicate(timeout=timeout)
    except subprocess.TimeoutExpired:
        p.kill()
        p.communicate()
        return None, "worker timeout"
    if p.returncode != 0 or not os.path.exists(fout):
        return None, (err or b"").decode("utf8", "replace")[-600:]
    with open(fout, "rb") as f:
        return pickle.load(f), None


def run_workers(mode, specs, tmp, tag, par=14, timeout=900):
    """specs: list of (spec, hashseed). Returns list of (result|None, error|None) in order."""
    out = [None] * len(specs)
    pending = list(enumerate(specs))
    running = []
    while pending or running:
        while pending and len(running) < par:
            i, (spec, hs) = pending.pop(0)
            p, fout = spawn(mode, spec, tmp, f"{tag}{i}", hs)
            running.append((i, p, fout))
        i, p, fout = running.pop(0)
        out[i] = collect(p, fout, timeout)
    return out


# ---------------------------------------------------------------------------------------------
# generation of programs and histories
# ---------------------------------------------------------------------------------------------

# ---------------------------------------------------------------------------------------------
# order differential on blocks of near-duplicate programs (the exhaustive small scope of tools/streams.py): the same
# programs analysed in one process in two different orders must give the same result each -- whatever an analysis leaves
# behind under a key that is coarser than its whole input changes the result of a neighbour analysed later
# ---------------------------------------------------------------------------------------------

def _order_worker(args):
    block, rev = args
    from pycparser import CParser
    from pymwp import Analysis, LoopAnalysis
    seq = [(lab, src, kind) for lab, src in block for kind in ("L", "F")]
    if rev:
        seq = list(reversed(seq))
    out = {}
    for lab, src, kind in seq:
        try:
            ast = CParser().parse(src)
            if kind == "F":
                r = vlib.with_timeout(lambda: Analysis.run(ast, fin=False, strict=False), 20)
            else:
                r = vlib.with_timeout(lambda: LoopAnalysis.run(ast, strict=False), 20)
            out[(lab, kind)] = json.dumps(canon(r.to_dict()), sort_keys=True, default=str)
        except vlib.CaseTimeout:
            out[(lab, kind)] = "timeout"
        except Exception as e:
            out[(lab, kind)] = "exc:" + str(vlib.exc_sig(e))
    return out


def order_phase(ctx, failing):
    import multiprocessing as mp
    import streams
    allp = streams.small_scope_all()
    by_block = {}
    for lab, src in allp:
        key = tuple(lab.split(":")[1:4])          # prefix, loop kind, first statement: 54 programs differing in the second statement
        by_block.setdefault(key, []).append((lab, src))
    keys = sorted(by_block)
    pick = ctx.rng.sample(keys, min(len(keys), ctx.n(8, 96)))
    items = [(by_block[k], rev) for k in pick for rev in (False, True)]
    vlib.import_pymwp()
    with mp.get_context("fork").Pool(16, maxtasksperchild=1) as pool:
        res = pool.map(_order_worker, items, chunksize=1)
    ncmp = 0
    for bi, k in enumerate(pick):
        fwd, bwd = res[2 * bi], res[2 * bi + 1]
        for key in fwd:
            ncmp += 1
            if fwd[key] != bwd.get(key) and "timeout" not in (fwd[key], bwd.get(key)):
                lab, kind = key
                src = dict(by_block[k])[lab]
                if sum(1 for f in failing if f["sig"] == ["C13", "order"]) < 2:
                    failing.append({"what": f"order: the {'loop' if kind == 'L' else 'function'}-mode result of a program depends on whether 107 near-duplicates "
                                            "of it were analysed before or after it in the same process",
                                    "sig": ["C13", "order"], "input": {"order_block": list(k), "program": src, "kind": kind},
                                    "expected": "the same result in both orders", "observed": "results differ"})
    return ncmp, len(pick)


def corpus_files(thorough):
    import glob
    out = []
    for f in sorted(glob.glob(os.path.join(vlib.REPO, "c_files", "*", "*.c"))):
        base = os.path.basename(f)[:-2]
        if not thorough and base in SLOW_CORPUS:
            continue
        try:
            t = open(f).read()
        except OSError:
            continue
        if "#" in t:
            continue
        out.append(("c_files/" + os.path.basename(os.path.dirname(f)) + "/" + os.path.basename(f), strip_comments(t)))
    return out


def make_pool(ctx):
    import gen_prog
    import streams
    import syntax_common
    pool = {"gen": [], "multi": [], "corpus": [], "edge": []}
    for k in range(ctx.n(16, 80)):     # functions with constructs at the edge / outside of the supported syntax (ast_mod, strict refusals)
        src, _ = syntax_common.gen_parsed(ctx.rng, ctx.rng.choice([0.2, 0.35, 0.5]), maxdepth=2)
        pool["edge"].append((f"edge{k}", src))
    for label, src in streams.programs(ctx, ctx.n(40, 220), max_sites=ctx.n(4, 5)):
        if ctx.rng.random() < 0.2 and not label[0].isupper() and " f(" in src:
            # names that differ only in case (n / N): anything ordered case-insensitively ties on them
            ren = {"x": "n", "y": "N", "z": "a", "u": "A"}
            src = re.sub(r"\b([xyzu])\b", lambda m: ren[m.group(1)], src)
            label += "-case"
        pool["gen"].append((label, src))
    for k in range(ctx.n(8, 40)):
        nf = ctx.rng.randrange(2, 5)
        parts = []
        for i in range(nf):
            s, _, _ = gen_prog.gen_function(ctx.rng, streams.cfg_for(ctx.rng, ctx.n(4, 5)), fname=f"g{i}")
            parts.append((f"g{i}", s))
        pool["multi"].append((f"multi{k}", "\n".join(s for _, s in parts), parts))
    for label, src in corpus_files(ctx.thorough):
        pool["corpus"].append((label, src))
    # near-duplicates: two functions that differ ONLY in the body of one loop whose header text is identical (in one of them the
    # body mentions the header's variable): anything remembered under a key that is coarser than the whole statement shows here
    pool["twins"] = []
    r = ctx.rng
    for k in range(ctx.n(10, 60)):
        vs = ["x", "y", "z"]
        G = r.choice(vs)
        o1, o2 = [v for v in vs if v != G]
        pre = r.choice(["", f"{o1} = {o2};", f"{o2} = {o1} + {o1};", f"{G} = {o1};"])
        post = r.choice(["", f"{o2} = {o1} + {G};", f"{o1} = {o2};"])
        with_g = r.choice([f"{o1} = {o1} + {G};", f"{G} = {o1};", f"{o1} = {G} * {o2};", f"{o2} = {G};", f"{G} = {G} + {o1};"])
        without = r.choice([f"{o1} = {o1} + {o2};", f"{o1} = {o2};", f"{o1} = {o2} * {o2};", f"{o2} = {o1} + {o1};"])
        head = r.choice([f"for (i = 0; i < {G}; i++)", f"for (i = 0; i < {G}; i++)", f"while ({G} > 0)", f"while ({o1} < {G})"])
        mk = lambda body: f"int f(int x, int y, int z, int i)\n{{\n  {pre}\n  {head} {{ {body} }}\n  {post}\n}}\n"
        pool["twins"].append((f"twin{k}", mk(with_g), mk(without)))
    # ... and a function next to the same function with ONE more (harmless) operation at the end of its last loop / of its body:
    # everything the first analysis computed recurs in the second, at a different degree
    import copy
    for k in range(ctx.n(60, 600)):
        cfg = gen_prog.Cfg(nvars=r.choice([3, 3, 4]), max_sites=4, bias=r.choice(["pair-cycle", "pair-cycle", "for-accumulate", "branch-accumulate", "tight-cycle", None]),
                           constants=True, sugar=False, max_depth=1, max_stmts=r.choice([1, 2]))
        g = gen_prog.Gen(r, cfg)
        ss = g.program()
        vs = list(g.vars) + ["q9"]
        extra = ("s", f"{r.choice(['q9', 'q9'] + list(g.vars))} = {r.choice(g.vars)} {r.choice('*+')} {r.choice(g.vars)};")
        ss2 = copy.deepcopy(ss)
        loops = [s_ for s_ in ss2 if s_[0] in ("while", "dowhile", "for")]
        if loops and r.random() < 0.7:
            l_ = loops[-1]
            body = l_[2] if l_[0] != "for" else l_[4]
            if body[0] == "block":
                body[1].append(extra)
            else:
                ss2.append(extra)
        else:
            ss2.append(extra)
        pool["twins"].append((f"plus{k}", gen_prog.render(ss, vs), gen_prog.render(ss2, vs)))
    return pool


def make_step(rng, pool):
    r = rng.random()
    if r < 0.45:
        label, src = rng.choice(pool["gen"])
        fam = "gen"
    elif r < 0.6 and pool["edge"]:
        label, src = rng.choice(pool["edge"])
        fam = "edge"
    elif r < 0.78 and pool["multi"]:
        label, src, _ = rng.choice(pool["multi"])
        fam = "multi"
    elif pool["corpus"]:
        label, src = rng.choice(pool["corpus"])
        fam = "corpus"
    else:
        label, src = rng.choice(pool["gen"])
        fam = "gen"
    kind = "L" if rng.random() < 0.3 else "F"
    job = {"label": label, "src": src, "kind": kind, "fin": (kind == "F" and rng.random() < 0.5), "strict": rng.random() < 0.3, "fam": fam}
    if fam == "gen" and kind == "F" and not (job["fin"] and job["strict"]):
        job["coq"] = True
    return job


def make_history(rng, pool, length):
    steps = []
    while len(steps) < length:
        r = rng.random()
        if r < 0.12 and pool.get("twins"):
            label, a, b = rng.choice(pool["twins"])
            if rng.random() < 0.5:
                a, b = b, a
            kind = "L" if rng.random() < (0.7 if label.startswith("plus") else 0.4) else "F"
            for tag, src in (("a", a), ("b", b)):
                steps.append({"label": label + tag, "src": src, "kind": kind, "fin": False, "strict": rng.random() < 0.3, "fam": "twins"})
        elif steps and r < 0.22:
            steps.append(dict(steps[-1]))                                   # the same program, same options, twice in a row
        elif steps and r < 0.34:
            j = dict(steps[-1])                                             # the same program under other options
            j["kind"] = rng.choice(["F", "L"])
            j["fin"] = (j["kind"] == "F" and rng.random() < 0.5)
            j["strict"] = rng.random() < 0.3
            j.pop("coq", None)
            if j["fam"] == "gen" and j["kind"] == "F" and not (j["fin"] and j["strict"]):
                j["coq"] = True
            steps.append(j)
        else:
            steps.append(make_step(rng, pool))
    return steps


# ---------------------------------------------------------------------------------------------
# the check
# ---------------------------------------------------------------------------------------------

REF_HEADER = (
    "From Coq Require Import List Bool Arith.\nFrom PM Require Import Semiring Poly Rel RefModel.\nImport ListNotations.\n"
    "Definition prov (n0 s : nat) : option nat := if Nat.ltb s n0 then Some s else None.\n"
    "Definition on_eqb (a b : option nat) : bool := match a, b with Some x, Some y => Nat.eqb x y | None, None => true | _, _ => false end.\n"
    "Definition om_eqb (a b : option nat * mono) : bool := on_eqb (fst a) (fst b) && mono_eqb (snd a) (snd b).\n"
    "Definition od_eqb (a b : option nat * list delta) : bool := on_eqb (fst a) (fst b) && list_eqb delta_eqb (snd a) (snd b).\n"
    "Definition obs_poly (n0 : nat) (h : heap) (r : rpoly) : list (option nat * mono) := map (fun s => (prov n0 s, hget h s)) r.\n"
    "Definition heap_eqb (a b : heap) : bool := list_eqb mono_eqb a b.\n"
    "Fixpoint nodupb (l : list nat) : bool := match l with [] => true | x :: t => negb (existsb (Nat.eqb x) t) && nodupb t end.\n"
    "Inductive opk := ADD | TIMES | COPY.\n"
    "Definition check_op (c : opk * heap * rpoly * rpoly * list (option nat * mono) * heap) : nat :=\n"
    "  let '(k, h, p, q, er, eh) := c in\n"
    "  let '(h', r) := match k with ADD => radd h p q | TIMES => rtimes h p q | COPY => rcopy h p end in\n"
    "  if negb (list_eqb om_eqb (obs_poly (length h) h' r) er) then 1\n"
    "  else if negb (heap_eqb (firstn (length h) h') eh) then 2\n"
    "  else if negb (nodupb (filter (fun s => negb (Nat.ltb s (length h))) r)) then 3 else 0.\n"
    "Definition loop_case := (bool * nat * nat * heap * rmatrix * (list (list (list (option nat * mono))) * list (option nat * list delta) * heap))%type.\n"
    "Definition check_loop (c : loop_case) : nat :=\n"
    "  let '(is_for, n, ell, h, body, (efinal, ewritten, eh)) := c in\n"
    "  match (if is_for then rfor 64 h n body ell else rwhile 64 h n body) with\n"
    "  | None => 9\n"
    "  | Some (h', m, w) =>\n"
    "      if negb (list_eqb (list_eqb (list_eqb om_eqb)) (map (map (obs_poly (length h) h')) m) efinal) then 1\n"
    "      else if negb (list_eqb od_eqb (map (fun s => (prov (length h) s, ds (hget h' s))) w) ewritten) then 2\n"
    "      else if negb (heap_eqb (firstn (length h) h') eh) then 3 else 0\n"
    "  end.\n"
    "Fixpoint bad {A} (f : A -> nat) (n : nat) (l : list A) : list (nat * nat) :=\n"
    "  match l with [] => [] | c :: t => match f c with 0 => bad f (S n) t | k => (n, k) :: bad f (S n) t end end.\n")

REF_CODES_OP = {1: "result (provenance / scalar / deltas) differs", 2: "state of a pre-existing monomial differs", 3: "model re-uses a fresh stamp twice"}
REF_CODES_LOOP = {1: "corrected fixpoint relation (provenance / values) differs", 2: "ordered list of written monomials differs",
                  3: "state of a pre-existing monomial differs", 9: "model out of fuel"}


def refmodel_compare(outs, mism):
    jobs, idx = [], []
    for wi, o in enumerate(outs):
        for kind, key, fn, sh in (("ops", "labels_ops", "check_op", 250), ("loops", "labels_loops", "check_loop", 60)):
            cs = o[kind]
            for a in range(0, len(cs), sh):
                name = f"c13p{os.getpid()}_ref_{kind}_{wi}_{a // sh}"
                ty = "list loop_case" if kind == "loops" else "list (opk * heap * rpoly * rpoly * list (option nat * mono) * heap)"
                text = REF_HEADER + "Definition cases : " + ty + " := " + vlib.cq_list(cs[a:a + sh]) + ".\nEval vm_compute in bad " + fn + " 0 cases.\n"
                jobs.append((name, text))
                idx.append((name, kind, o[key][a:a + sh]))
    res = vlib.coq_eval_many(jobs, timeout=900)
    for name, kind, labels in idx:
        ok, out = res[name]
        vals = vlib.parse_eval_results(out)
        if not ok or not vals:
            mism.append(f"stream refmodel {name}: coqc failed: {out[-400:]}")
            continue
        if vals[0] != "[]":
            pairs = re.findall(r"\((\d+), (\d+)\)", vals[0])
            i, code = int(pairs[0][0]), int(pairs[0][1])
            codes = REF_CODES_OP if kind == "ops" else REF_CODES_LOOP
            mism.append(f"stream refmodel {name}: {len(pairs)} cases differ; first: {codes.get(code, code)} on {json.dumps(labels[i], default=str)[:700]}")
    return len(jobs)


def has_loop(rec):
    try:
        return rec["res"]["program"]["n_loops"] > 0
    except Exception:
        return False


SHRINK_BUDGET = {"n": 4}


def shrink_history(steps, k, tmp, fresh0, hashseed, instrument, pred):
    """smallest of: [k] alone, [j, k] for one earlier step j, the prefix up to k -- on which `pred(worker output, index of step k)` holds"""
    cands = [[k]] + [[j, k] for j in range(k - 1, -1, -1)][:8] + [list(range(k + 1))]
    SHRINK_BUDGET["n"] -= 1
    if SHRINK_BUDGET["n"] < 0:          # many failures: the first few are shrunk, the rest reported as found
        return [dict(s) for s in steps[:k + 1]]
    for n, c in enumerate(cands):
        sub = [dict(steps[i]) for i in c]
        (res, err), = run_workers("history", [({"steps": sub, "instrument": instrument}, hashseed)], tmp, f"shr{k}_{n}_", par=1, timeout=300)
        if res is not None and pred(res, len(sub) - 1):
            return sub
    return [dict(s) for s in steps[:k + 1]]


def pub(step):
    return {k: step[k] for k in ("label", "src", "kind", "fin", "strict") if k in step}


def run(ctx):
    vlib.import_pymwp()
    import e2e
    t0 = time.time()
    SHRINK_BUDGET["n"] = 4
    failing, mism = [], []
    tmp = tempfile.mkdtemp(prefix="c13_")
    stats = {}
    try:
        pool = make_pool(ctx)
        nseq = ctx.n(16, 96)
        nseeds = ctx.n(4, 16)
        histories = []
        # fixed programs every run analyses (alone, twice, in both modes, under every hash seed): shapes whose variable order / text is
        # decided by a set somewhere unless the code takes care
        ALWAYS = [
            "int f(int n, int done, int ok){ while (n > 0) { done = false; ok = true; n = n - 1; } }",
            "int f(int n, int N, int a, int A){ while (n > 0) { a = A + N; N = a + n; } A = n; }",
            "int f(int x, int n, int N, int a, int A, int b, int B){ x = n * N; a = A * a; b = B * b; x = x * b; }",
            "int f(int x, int y, int z, int w){ log4(x, y, z, w); if (x > 0) { y = g(z, w, x); } return h(x, y, z); }",
            "int f(int a, int b, int c, int d, int e){ while (a > 0) { if (b > 0) { c = d + e; } else { e = c + d; } d = true; b = false; } }",
        ]
        fixed = []
        for src_ in ALWAYS:
            for kind_, strict_ in (("F", False), ("L", False), ("F", True), ("L", True), ("F", False)):
                fixed.append({"label": "always", "src": src_, "kind": kind_, "fin": False, "strict": strict_, "fam": "gen"})
        histories.append({"steps": fixed, "instrument": False, "hashseed": 0})
        for s in range(nseq):
            length = ctx.rng.randrange(ctx.n(6, 8), ctx.n(15, 30))
            histories.append({"steps": make_history(ctx.rng, pool, length), "instrument": (s % 2 == 0), "hashseed": s % nseeds})
        # ---- distinct jobs for the fresh-process reference ----
        jobs, seen = [], {}
        multi_parts = {src: parts for (_, src, parts) in pool["multi"]}

        def need(job):
            k = job_key(job)
            if k not in seen:
                seen[k] = len(jobs)
                jobs.append({"src": job["src"], "kind": job["kind"], "fin": bool(job.get("fin")), "strict": bool(job.get("strict"))})
        for h in histories:
            for st in h["steps"]:
                need(st)
                if st["src"] in multi_parts:
                    for fn, fsrc in multi_parts[st["src"]]:
                        need(dict(st, src=fsrc))
        # ---- launch: histories, fresh runs per seed, reference-model stream ----
        chunk = max(1, (len(jobs) + 3) // 4)
        fresh_specs, fresh_map = [], []
        for hs in range(nseeds):
            for a in range(0, len(jobs), chunk):
                fresh_specs.append((jobs[a:a + chunk], hs))
                fresh_map.append((hs, a))
        ref_srcs = [src for _, src in pool["gen"][:ctx.n(40, 150)]]
        ref_specs = [({"seed": ctx.rng.randrange(1 << 30), "n_ops": ctx.n(220, 900), "n_loops": ctx.n(40, 160),
                       "srcs": ref_srcs[i::ctx.n(2, 4)], "budget_s": ctx.n(60, 240)}, 0) for i in range(ctx.n(2, 4))]
        hist_out = run_workers("history", [({"steps": h["steps"], "instrument": h["instrument"]}, h["hashseed"]) for h in histories], tmp, "h", par=16)
        t_hist = time.time() - t0
        fresh_out = run_workers("fresh", fresh_specs, tmp, "f", par=16)
        t_fresh = time.time() - t0 - t_hist
        ref_out = run_workers("refmodel", ref_specs, tmp, "r", par=8)
        fresh = [dict() for _ in range(nseeds)]     # seed -> job index -> record
        for (hs, a), (res, err) in zip(fresh_map, fresh_out):
            if res is None:
                mism.append(f"fresh worker (seed {hs}, chunk {a}) failed: {err}")
                continue
            for off, rec in enumerate(res):
                fresh[hs][a + off] = rec
                if "harness_exc" in rec:
                    mism.append(f"fresh run harness error: {rec['harness_exc']} on {jobs[a + off]['src'][:200]!r}")

        def fresh_rec(job, hs=0):
            return fresh[hs].get(seen[job_key(job)])

        # ---- (b) hash seeds ----
        key_order_only, seed_cmp = 0, 0
        key_order_samples = []
        for ji, job in enumerate(jobs):
            base = fresh[0].get(ji)
            if base is None:
                continue
            for hs in range(1, nseeds):
                other = fresh[hs].get(ji)
                if other is None:
                    continue
                seed_cmp += 1
                if "harness_exc" in base or "harness_exc" in other:
                    continue
                if (base["res"], base["exc"]) != (other["res"], other["exc"]):
                    failing.append({"what": f"hash-seed: fresh-process result under PYTHONHASHSEED={hs} differs from PYTHONHASHSEED=0",
                                    "sig": ["C13", "hash-seed"], "input": {"steps": [pub(job)], "hashseed": hs},
                                    "expected": ordered([base["res"], base["exc"]])[:1500], "observed": ordered([other["res"], other["exc"]])[:1500]})
                    break
                if ordered(base["res"]) != ordered(other["res"]):
                    key_order_only += 1
                    if len(key_order_samples) < 2:
                        key_order_samples.append({"src": job["src"], "kind": job["kind"], "strict": job["strict"], "hashseed": hs})
        # ---- (a), (c), (d) histories ----
        kinds = {"F": 0, "F-fin": 0, "F-strict": 0, "L": 0, "L-strict": 0}
        fams = {"gen": 0, "multi": 0, "corpus": 0, "edge": 0, "twins": 0}
        nsteps = same_twice = ast_checked = ast_modified_allowed = per_func = exc_steps = hist_key_order = timeouts_skipped = 0
        counts_tot = {}
        coq_cases = []
        nontrivial = set()
        for hi, (h, (res, err)) in enumerate(zip(histories, hist_out)):
            steps = h["steps"]
            if res is None:
                mism.append(f"history worker {hi} failed: {err}")
                continue
            for kk, vv in res["counts"].items():
                counts_tot[kk] = counts_tot.get(kk, 0) + vv
            for v in res["viol"]:
                k = v["step"]

                def pred(r, i, kind=v["kind"]):
                    return any(x["kind"] == kind and x["step"] == i for x in r["viol"])
                sub = shrink_history(steps, k, tmp, fresh, h["hashseed"], True, pred)
                failing.append({"what": f"aliasing: {v['kind']}", "sig": ["C13", "aliasing", v["kind"]],
                                "input": {"steps": [pub(s) for s in sub], "hashseed": h["hashseed"], "instrument": True},
                                "expected": "only monomials allocated inside the enclosing fixpoint / current analysis are written", "observed": v["detail"]})
            for k, (st, rec) in enumerate(zip(steps, res["steps"])):
                nsteps += 1
                if "harness_exc" in rec:
                    mism.append(f"history {hi} step {k}: harness error {rec['harness_exc']}")
                    continue
                kinds[("L" if st["kind"] == "L" else "F") + ("-strict" if st["strict"] else ("-fin" if st.get("fin") else ""))] += 1
                fams[st["fam"]] += 1
                if k and job_key(steps[k - 1]) == job_key(st):
                    same_twice += 1
                if rec["exc"]:
                    exc_steps += 1
                ref = fresh_rec(st)
                if ref is None or "harness_exc" in ref:
                    continue
                if has_loop(ref):
                    nontrivial.add(job_key(st))

                def differs(r, i, ref=ref):
                    x = r["steps"][i]
                    return (x.get("res"), x.get("exc")) != (ref["res"], ref["exc"])
                if "Timeout" in ((rec["exc"] or [None])[0], (ref["exc"] or [None])[0]):
                    timeouts_skipped += 1        # the time limit is a safety net of the harness (machine load), not an observation about pymwp
                elif (rec["res"], rec["exc"]) != (ref["res"], ref["exc"]):
                    sub = shrink_history(steps, k, tmp, fresh, h["hashseed"], h["instrument"], differs)
                    failing.append({"what": "history: result after a history differs from the result in a fresh process",
                                    "sig": ["C13", "history"], "input": {"steps": [pub(s) for s in sub], "hashseed": h["hashseed"], "instrument": h["instrument"]},
                                    "expected": ordered([ref["res"], ref["exc"]])[:1500], "observed": ordered([rec["res"], rec["exc"]])[:1500]})
                elif ordered(rec["res"]) != ordered(ref["res"]):
                    hist_key_order += 1
                if not rec["consts_ok"]:
                    def cpred(r, i):
                        return not r["steps"][i]["consts_ok"]
                    sub = shrink_history(steps, k, tmp, fresh, h["hashseed"], h["instrument"], cpred)
                    failing.append({"what": "constants: matrix.ZERO / matrix.UNIT changed (identity or contents) after an analysis",
                                    "sig": ["C13", "constants"], "input": {"steps": [pub(s) for s in sub], "hashseed": h["hashseed"], "instrument": h["instrument"]},
                                    "expected": "ZERO = [o], UNIT = [m], same objects", "observed": "changed"})
                # caller's AST
                if rec["ast_text_same"] is not None:
                    if st["strict"] or rec["full"]:
                        ast_checked += 1
                        if not (rec["ast_text_same"] and rec["ast_struct_same"]):
                            failing.append({"what": "ast: the caller's syntax tree was modified although " +
                                            ("strict=True" if st["strict"] else "the gate reports full support"),
                                            "sig": ["C13", "ast"], "input": {"steps": [pub(st)], "hashseed": h["hashseed"]},
                                            "expected": "tree unchanged", "observed": {"text_same": rec["ast_text_same"], "struct_same": rec["ast_struct_same"]}})
                    elif not rec["ast_struct_same"]:
                        ast_modified_allowed += 1
                # functions of a many-function file against the file with that function alone
                if st["src"] in multi_parts and rec["res"] is not None:
                    sec = "relations" if st["kind"] == "F" else "loops"
                    for fn, fsrc in multi_parts[st["src"]]:
                        single = fresh_rec(dict(st, src=fsrc))
                        if single is None or single.get("res") is None:
                            continue
                        a = (rec["res"].get(sec) or {}).get(fn)
                        b = (single["res"].get(sec) or {}).get(fn)
                        per_func += 1
                        if a != b:
                            failing.append({"what": f"many-functions: result of function {fn} inside a file of several functions differs from the file holding it alone",
                                            "sig": ["C13", "many-functions"], "input": {"steps": [pub(st)], "function": fn, "alone": fsrc},
                                            "expected": ordered(b)[:1500], "observed": ordered(a)[:1500]})
                if "coq_case" in rec:
                    d, stop = rec["coq_case"]
                    coq_cases.append((f"history {hi} step {k} fin={st.get('fin')} strict={st['strict']}\n{st['src']}", d, stop))
        # ---- (d) in-history results against the Coq model of the analysis ----
        ncoq = 0
        if ctx.coq_ok:
            ctx.rng.shuffle(coq_cases)
            sample = coq_cases[:ctx.n(110, 600)]
            ncoq = len(sample)
            mism += e2e.coq_compare(f"c13p{os.getpid()}", sample)
        else:
            mism.append("model not built: in-history correspondence not run")
        # ---- (e) reference model against the real objects ----
        nref_ops = nref_loops = 0
        ref_skipped = {}
        ref_ok = []
        for (res, err) in ref_out:
            if res is None:
                mism.append(f"reference-model worker failed: {err}")
                continue
            ref_ok.append(res)
            nref_ops += len(res["ops"])
            nref_loops += len(res["loops"])
            for kk, vv in res["skipped"].items():
                ref_skipped[kk] = ref_skipped.get(kk, 0) + vv
        if ref_skipped.get("aborted") or ref_skipped.get("op_exc", 0) + ref_skipped.get("loop_exc", 0) > 10:
            mism.append("reference-model stream: the real add/times/fixpoint raised or hung on generated operands (none does on the unchanged tree): " + str(ref_skipped))
        ncaptured = sum(1 for r in ref_ok for lb in r["labels_loops"] if "captured_from" in lb)
        if ctx.coq_ok:
            refmodel_compare(ref_ok, mism)
        else:
            mism.append("model not built: reference-model correspondence not run")
        ntimeouts = sum(1 for f in fresh for r in f.values() if (r.get("exc") or [None])[0] == "Timeout")
        stats_timeouts = {"fresh": ntimeouts, "history_steps_skipped": timeouts_skipped}
        if ntimeouts > max(3, len(jobs) // 20):
            mism.append(f"{ntimeouts} of {len(jobs)} fresh-process analyses exceeded the per-analysis time limit of 25 s (termination is property C06's; "
                        "this many is not machine load)")
        if nsteps and (counts_tot.get("corr_writes", 0) == 0 or nref_loops == 0):
            mism.append("generator degenerate: no corrected monomial observed " + str(counts_tot))
        lens = [len(h["steps"]) for h in histories]
        sample_h = histories[0]["steps"][:4] if histories else []
        stats = {"evaluations": nsteps + sum(len(f) for f in fresh) + nref_ops + nref_loops + ncoq,
                 "distinct_nontrivial": len(nontrivial),
                 "rule": "history steps = Analysis.run(fin, strict) / LoopAnalysis.run(strict) calls inside random sequences run in one process each "
                         "(generated functions incl. biased loop streams, functions with unsupported/edge syntax, files of 2-4 functions, /repo/c_files), each compared with the fork-fresh run "
                         "of the same (program, options); non-trivial = distinct (program, kind, fin, strict) occurring in a history whose program has >= 1 loop",
                 "samples": [{"history_prefix": [pub(s) for s in sample_h], "hashseed": histories[0]["hashseed"] if histories else None}] + key_order_samples[:1],
                 "histories": nseq, "history_lengths": {"min": min(lens), "max": max(lens), "total_steps": nsteps},
                 "step_kinds": kinds, "program_families": fams, "same_step_twice_in_a_row": same_twice, "steps_raising": exc_steps,
                 "distinct_jobs": len(jobs), "hash_seeds": list(range(nseeds)), "seed_comparisons": seed_cmp,
                 "key_order_only_differences_across_seeds": key_order_only, "key_order_only_differences_history_vs_fresh": hist_key_order,
                 "history_hashseeds": sorted({h["hashseed"] for h in histories}),
                 "instrumented_histories": sum(1 for h in histories if h["instrument"]),
                 "aliasing_counts": counts_tot, "mutated_monomials_checked": counts_tot.get("corr_writes", 0),
                 "ast_unchanged_checked": ast_checked, "ast_modified_where_allowed": ast_modified_allowed,
                 "per_function_comparisons": per_func, "coq_model_cases": ncoq,
                 "refmodel_op_cases": nref_ops, "refmodel_loop_cases": nref_loops, "refmodel_loop_cases_captured_from_analyses": ncaptured,
                 "refmodel_skipped": ref_skipped,
                 "harness_time_limits_hit": stats_timeouts,
                 "wall": {"histories_s": round(t_hist, 1), "fresh_s": round(t_fresh, 1), "total_s": round(time.time() - t0, 1)}}
    finally:
        shutil.rmtree(tmp, ignore_errors=True)
    if not mism:       # the case files carry the pid (concurrent runs): remove them unless they are needed to look at a mismatch
        import glob
        for f in glob.glob(os.path.join(vlib.COQ, "corr", f"c13p{os.getpid()}*")) + glob.glob(os.path.join(vlib.COQ, "corr", f".c13p{os.getpid()}*")):
            try:
                os.remove(f)
            except OSError:
                pass
    mism = list(dict.fromkeys(mism))[:25]
    # component history: the choice representation (set-based intermediate collections) is called with the same sequences at other
    # degrees / domains in one process (oracle and generators of property C04)
    try:
        import props.c04 as c04
        nch = 0
        for _ in range(ctx.n(150, 1500)):
            n = ctx.rng.randint(1, 4)
            S = c04.rand_set(ctx.rng, [0, 1, 2] if ctx.rng.random() < 0.6 else [0, 1], n, 6)
            for dom, dn, kind in (([0, 1, 2], 0, "generate"), ([0, 1, 2], 1, "generate"), ([0, 1, 2], 0, "build"), ([0, 1, 2], 2, "build"), ([0, 1, 2], 0, "generate")):
                nch += 1
                try:
                    r = c04.check_case(c04.jcase(kind, dom, n + dn, S))
                except Exception as e:
                    r = {"what": f"raises {vlib.exc_sig(e)}", "input": None}
                if r:
                    failing.append({"what": "component-history: Choices built from the same delta sequences at another degree earlier in this process: " + str(r.get("what")),
                                    "sig": ["C13", "component-history", "Choices"],
                                    "input": {"component": "Choices", "history": [c04.jcase(k_, d_, n + x_, S) for d_, x_, k_ in
                                              (([0, 1, 2], 0, "generate"), ([0, 1, 2], 1, "generate"), ([0, 1, 2], 0, "build"), ([0, 1, 2], 2, "build"), ([0, 1, 2], 0, "generate"))]},
                                    "expected": r.get("expected"), "observed": r.get("observed")})
                    break
            if any(f["sig"][:2] == ["C13", "component-history"] for f in failing):
                break
        stats["component_history_calls"] = nch
    except Exception as e:
        mism.append(f"component history: harness error {type(e).__name__}: {e}")
    try:
        ncmp, nblocks = order_phase(ctx, failing)
        stats["order_differential"] = {"blocks_of_54_near_duplicates": nblocks, "program_results_compared": ncmp}
        stats["evaluations"] = stats.get("evaluations", 0) + 2 * ncmp
    except Exception as e:
        mism.append(f"order phase: harness error {type(e).__name__}: {e}")
    return {"failing": failing[:60], "corr_mismatch": mism, "stats": stats}


def replay(ctx, data):
    """re-run a recorded history (steps, hashseed, instrument) and compare its last step with the fresh-process run"""
    inp = data.get("input", data)
    if inp.get("component") == "Choices":
        import props.c04 as c04
        for case in inp["history"]:
            r = c04.check_case(case)
            if r:
                return {"what": "component-history: " + str(r.get("what")), "sig": ["C13", "component-history", "Choices"], "input": inp}
        return None
    if inp.get("order_block"):
        import streams
        k = tuple(inp["order_block"])
        block = [(lab, src) for lab, src in streams.small_scope_all() if tuple(lab.split(":")[1:4]) == k]
        import multiprocessing as mp
        vlib.import_pymwp()
        with mp.get_context("fork").Pool(2, maxtasksperchild=1) as pool:
            fwd, bwd = pool.map(_order_worker, [(block, False), (block, True)], chunksize=1)
        if any(fwd[x] != bwd.get(x) for x in fwd):
            return {"what": "order: results depend on the order of analysis within one process", "sig": ["C13", "order"], "input": inp}
        return None
    steps = inp.get("steps")
    if not steps:
        return None
    tmp = tempfile.mkdtemp(prefix="c13r_")
    try:
        hs = int(inp.get("hashseed") or 0)
        last = steps[-1]
        (hres, herr), = run_workers("history", [({"steps": steps, "instrument": bool(inp.get("instrument", True))}, hs)], tmp, "rh", par=1, timeout=600)
        (f0, e0), = run_workers("fresh", [([last], 0)], tmp, "rf", par=1, timeout=600)
        if hres is None or f0 is None:
            return {"what": f"replay harness failure: {herr or e0}", "sig": ["C13", "harness"], "input": inp}
        rec, ref = hres["steps"][-1], f0[0]
        if hres["viol"]:
            v = hres["viol"][0]
            return {"what": f"aliasing: {v['kind']}", "sig": ["C13", "aliasing", v["kind"]], "input": inp, "observed": v["detail"]}
        if not rec.get("consts_ok", True):
            return {"what": "constants: matrix.ZERO / matrix.UNIT changed", "sig": ["C13", "constants"], "input": inp}
        if (rec.get("res"), rec.get("exc")) != (ref.get("res"), ref.get("exc")):
            sig = ["C13", "hash-seed"] if len(steps) == 1 and hs else ["C13", "history"]
            return {"what": "history: result differs from the fresh-process result", "sig": sig, "input": inp,
                    "expected": ordered([ref.get("res"), ref.get("exc")])[:1500], "observed": ordered([rec.get("res"), rec.get("exc")])[:1500]}
        if (last.get("strict") or rec.get("full")) and rec.get("ast_struct_same") is False:
            return {"what": "ast: the caller's syntax tree was modified", "sig": ["C13", "ast"], "input": inp}
        if inp.get("function"):
            (f1, e1), = run_workers("fresh", [([dict(last, src=inp["alone"])], 0)], tmp, "rg", par=1, timeout=600)
            sec = "relations" if last["kind"] == "F" else "loops"
            if f1 and f1[0].get("res") and rec.get("res"):
                if (rec["res"].get(sec) or {}).get(inp["function"]) != (f1[0]["res"].get(sec) or {}).get(inp["function"]):
                    return {"what": "many-functions: result differs from the function alone", "sig": ["C13", "many-functions"], "input": inp}
        return None
    finally:
        shutil.rmtree(tmp, ignore_errors=True)


if __name__ == "__main__":
    _main()
