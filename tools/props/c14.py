"""C14: a saved result loads back as a working, equal result.

search         REAL pymwp: results of Analysis.run (fin on/off, strict on/off) and LoopAnalysis.run
               (strict on/off) on hand-picked edge programs (no variables, no binary operation, infinite
               with fin=True, nested loops in loop mode, ...) and on generated programs, plus synthetic
               result objects built with the real constructors (zero / false / '' / [] fields, empty
               relation, choice objects of every shape).  Every result goes through real
               save_result -> load_result -> save_result -> load_result -> save_result in a temporary
               directory; the three files must be byte-identical (timestamps are saved values and must
               round-trip too).  The restored parts must behave like the originals: every scalar field
               equal; relation: same variables, cells equal, deltas are tuples, apply_choice equal at
               every vector of {0,1,2}^k (k <= 5), eval and composition with itself do not raise and
               equal the original's; choices: same index, is_valid agrees on all vectors; bound == bound.
correspondence the Coq model PM.Result (to_dict, from_dict . to_dict, and a full dump of the reloaded
               object: every field, choices.index, relation variables + matrix, bounds) against the real
               code on the same result values, printed as typed Coq literals; comparison computed
               inside Coq (vm_compute), <= 150 cases per file.
"""
import itertools
import json
import os
import shutil
import tempfile
import time

import vlib
import gen_prog

ID = "C14"
LEVEL = "proof"
TRANSLATORS = ["result", "semiring"]
MODEL_TARGETS = ["theories/Result.vo"]
TECHNIQUE = ("Coq proofs over an executable model of result.py driven by attribute lists generated from the source "
             "+ structural correspondence of to_dict / from_dict with the real code (vm_compute) "
             "+ real save/load/save chains with behavioural comparison of the restored objects")
LEVEL_TEXT = ("Machine-checked proofs, for every well-formed result value (any number of functions, loops, variables, "
              "monomials; any timestamps), that the model of Result/FuncResult/FuncLoops/LoopResult/VResult/Program "
              "satisfies to_dict(from_dict(to_dict r)) = to_dict r, that from_dict(to_dict r) restores every scalar "
              "field (including 0, False, '' and []), the relation (same variables, identical matrix, hence the same "
              "value at every choice), the choice object (valid and the recomputed index) and bounds that compare "
              "equal.  The model iterates over the attribute lists translated from result.py on every run and is "
              "compared with the real to_dict/from_dict on every run.")
LEVEL_NOTE = ("Trusted: Coq kernel; that PM.Result is result.py/matrix.encode/decode/Choices.__init__/Bound.__init__ "
              "(validated by correspondence on every run, not proved); json.dump/json.load are the identity on JSON "
              "values (tuples become lists); the tuple-vs-list distinction of deltas is not representable in the model "
              "and is covered by the search only (eval/composition of the reloaded relation on the real code).")
EXPLANATION = ("Theorems are about coq/theories/Result.v: typed records per class, attribute access by name, "
               "Serializable.to_dict/_load/_try_set/_try_get iterating over the generated _attrs/_ser_* lists and the "
               "generated __init__ tables. Search runs real save_result/load_result chains and compares behaviour of "
               "restored relations/choices/bounds; correspondence compares model and code on the same values.")
ASSUMPTIONS = [
    "result values are well formed: dictionary keys are the names of their entries and distinct, variable names are "
    "non-empty and contain no ',' or ';', monomial deltas are sorted by strictly increasing index, matrices are "
    "square of the size of the variable list, the relation's variables are the result's variables, "
    "VResult flags satisfy is_m -> is_w -> is_p and a VResult choice object has at least one vector",
    "the hand-written model PM.Result computes what result.py computes (checked by correspondence on every run)",
    "json.dump followed by json.load is the identity on None/bool/int/str/list/dict-with-str-keys values",
]

DOMAIN = [0, 1, 2]
MAXK = 5

# ---------------------------------------------------------------------------------------------
# programs
# ---------------------------------------------------------------------------------------------

EDGE = [
    ("no-vars", "int f(){ }"),
    ("no-binop", "int f(int x, int y){ x = y; }"),
    ("one-site", "int f(int x, int y){ x = x + y; }"),
    ("inf-while", "int f(int x, int y){ while(x>0){ x = x*y; } }"),
    ("inf-while-2", "int f(int x, int y, int z){ z = x + y; while(x>0){ x = x*y; y = y + z; } }"),
    ("nested-loops", "int f(int x,int y,int z){ while(x>0){ y = x; while(z>0){ z = y + y; } } }"),
    ("loop-no-binop", "int f(int x,int y,int z){ while(x>0){ y = x; } }"),
    ("loop-some-fail", "int f(int x,int y,int z){ while(x>0){ x = x*y; z = z + y; } }"),
    ("for-loop", "int f(int x,int y,int n,int i){ for(i=0;i<n;i++){ x = x + y; } }"),
    ("two-functions", "int f(int x,int y){ x = x + y; }\nint g(int a){ a = a * a; while (a > 0) { a = a + a; } }\nint h(){ }"),
    ("constants", "int f(int x,int y){ x = 1; y = x + 2; }"),
    ("if-else", "int f(int x,int y,int z){ if (x > 0) { x = y + z; } else { x = y * z; } }"),
    ("paper-3.1", "int f(int X1,int X2,int X3){ X1 = X2 + X3; X1 = X1 + X1; }"),
    ("empty-loop-body", "int f(int x){ while(x>0){ } }"),
    # identifiers the variable scan treats specially (true / false are not variables for `Variables`, yet statements may mention them)
    ("reserved-names", "int f(int found, int x){ found = true; while (x > 0) { x = x + found; found = false; } }"),
    ("reserved-names-2", "int f(int a, int b){ a = false; b = a + true; }"),
    ("numbered-names", "int f(int X1, int X2, int X10, int X11){ X10 = X2 + X1; X2 = X11 * X10; }"),
    ("unused-params", "int f(int x, int y, int z){ y = y; }"),
    ("no-functions", "int x;"),
]

MODES = [("func", False, False), ("func", True, False), ("func", False, True), ("func", True, True),
         ("loop", False, False), ("loop", False, True)]


def modules():
    vlib.import_pymwp()
    import pycparser
    import pymwp
    from pymwp import Analysis, LoopAnalysis, Result, Relation, Choices, Bound, MwpBound, Monomial, Polynomial
    from pymwp import result as R
    from pymwp import file_io as F
    ns = dict(pycparser=pycparser, Analysis=Analysis, LoopAnalysis=LoopAnalysis, Result=Result, Relation=Relation,
              Choices=Choices, Bound=Bound, MwpBound=MwpBound, Monomial=Monomial, Polynomial=Polynomial, R=R, F=F)
    return type("NS", (), ns)


def analyse(M, src, mode):
    kind, fin, strict = mode
    ast = M.pycparser.CParser().parse(src)
    if kind == "loop":
        return M.LoopAnalysis.run(ast, strict=strict)
    return M.Analysis.run(ast, fin=fin, strict=strict)


def programs(ctx, n):
    out = list(EDGE)
    rng = ctx.rng
    for i in range(n):
        cfg = gen_prog.Cfg(nvars=rng.choice([1, 2, 3, 3, 4]), max_sites=rng.choice([2, 3, 4, MAXK]),
                           bias=rng.choice([None, None, None, "overwrite-loop", "two-loops", "loops-in-branches"]),
                           constants=rng.random() < 0.5, sugar=rng.random() < 0.3,
                           max_depth=rng.choice([1, 2, 2, 3]), max_stmts=rng.choice([1, 2, 3, 4]))
        src, ss, vs = gen_prog.gen_function(rng, cfg)
        out.append((f"gen{i}", src, ss, vs))
    return out


# ---------------------------------------------------------------------------------------------
# synthetic result values, built with the real constructors
# ---------------------------------------------------------------------------------------------

NAMES = ["x", "y", "z", "X1", "n0", "_t", "max"]
SCAL = ["o", "m", "w", "p", "i"]


def rnd_poly(M, rng, k):
    monos = []
    for _ in range(rng.choice([1, 1, 2, 3])):
        idx = sorted(rng.sample(range(max(k, 1)), rng.randrange(0, min(k, 3) + 1))) if k else []
        monos.append(M.Monomial(rng.choice(SCAL), [(rng.choice(DOMAIN), j) for j in idx]))
    return M.Polynomial(*monos)


def rnd_choices(M, rng, k, kind):
    if kind == 0:
        return None
    if kind == 1:
        return M.Choices()                       # valid [] index -1
    if kind == 2:
        return M.Choices([], k)                  # infinite when k > 0, "valid [] index 0" when k == 0
    vs = []
    for _ in range(rng.choice([1, 1, 2, 3])):
        vs.append([sorted(rng.sample(DOMAIN, rng.randrange(1, 4))) for _ in range(k)])
    return M.Choices(vs, k)


def rnd_mwp(M, rng, vs):
    b = M.MwpBound()
    for v in vs:
        s = rng.choice(["m", "w", "p", "o", "o"])
        b.append(s, v)
    return b


def rnd_str(rng, kind):
    return rng.choice([None, "", "a", "int f() { }", "x ➔ y ‖ z ➔ z", "line1\nline2 \"q\"", "0"]) if kind else None


def synthetic(M, rng, i):
    """one Result with deliberately falsy / unusual but well-typed values"""
    R = M.R
    res = M.Result()
    z = lambda: rng.choice([0, 0, 1, 17, 1790792233791994298, rng.randrange(0, 10 ** 12)])
    res.start_time, res.end_time = z(), z()
    res.program = R.Program(rng.choice([None, "", "a/b.c"]), rng.choice([-1, 0, 0, 12]), rng.choice([0, 1, 3]),
                            rng.choice([0, 2]), rng.choice([0, 5]), rng.choice([0, 4]))
    loopmode = rng.random() < 0.4
    fnames = rng.sample(["f", "g", "main", "h_1"], rng.randrange(0, 4))
    for fn in fnames:
        if not loopmode:
            vs = rng.sample(NAMES, rng.choice([0, 0, 1, 2, 3]))
            k = rng.choice([0, 0, 1, 2, 3])
            rel = None
            if rng.random() < 0.75:
                mat = [[rnd_poly(M, rng, k) for _ in vs] for _ in vs]
                rel = M.Relation(list(vs), mat)
            bound = None
            if rng.random() < 0.7:
                bound = M.Bound({v: rnd_mwp(M, rng, vs).bound_str for v in vs})
            fr = R.FuncResult(fn, rng.random() < 0.3, list(vs), rel, rnd_choices(M, rng, k, rng.randrange(4)), bound,
                              rnd_str(rng, rng.randrange(2)), rng.choice([k, 0, -1]), rnd_str(rng, 1))
            fr.start_time, fr.end_time = z(), z()
            res.relations[fn] = fr
        else:
            fl = R.FuncLoops(fn)
            fl.start_time, fl.end_time = z(), z()
            for _ in range(rng.randrange(0, 3)):
                lr = R.LoopResult(rnd_str(rng, 1))
                lr.start_time, lr.end_time = z(), z()
                vs = rng.sample(NAMES, rng.choice([0, 1, 2, 3]))
                k = rng.choice([0, 1, 2])
                for v in vs:
                    lvl = rng.randrange(4)
                    flags = (lvl >= 3, lvl >= 2, lvl >= 1)
                    if rng.random() < 0.35:      # any triple: the property setters normalise it
                        flags = tuple(rng.random() < 0.5 for _ in range(3))
                    vr = R.VResult(v, flags[0], flags[1], flags[2],
                                   rnd_mwp(M, rng, vs) if rng.random() < 0.7 else None,
                                   rnd_choices(M, rng, k, rng.choice([0, 3, 3, 3, 1, 2])))
                    lr.variables[v] = vr
                fl.loops.append(lr)
            res.loops[fn] = fl
    return res


# ---------------------------------------------------------------------------------------------
# observation of a result object (full dump, also computed by the Coq header on the model)
# ---------------------------------------------------------------------------------------------

def dump_choices(c):
    if c is None:
        return None
    return {"valid": [[list(e) for e in v] for v in c.valid], "index": c.index}


def dump_matrix(m):
    return [[[{"scalar": mo.scalar, "deltas": [list(d) for d in mo.deltas]} for mo in p.list] for p in row] for row in m]


def dump_fr(f):
    return {"name": f.name, "infinite": f.infinite, "start_time": f.start_time, "end_time": f.end_time,
            "variables": f.variables, "inf_flows": f.inf_flows, "index": f.index, "func_code": f.func_code,
            "rvars": None if f.relation is None else list(f.relation.variables),
            "matrix": None if f.relation is None else dump_matrix(f.relation.matrix),
            "choices": dump_choices(f.choices),
            "bound": None if f.bound is None else {k: v.bound_str for k, v in f.bound.bound_dict.items()}}


def dump_vr(v):
    return {"name": v.name, "is_m": v.is_m, "is_w": v.is_w, "is_p": v.is_p,
            "choices": dump_choices(v.choices), "bound": None if v.bound is None else v.bound.bound_str}


def dump_result(r):
    p = r.program
    return {"start_time": r.start_time, "end_time": r.end_time,
            "program": None if p is None else {"program_path": p.program_path, "n_lines": p.n_lines, "n_func": p.n_func,
                                               "n_loops": p.n_loops, "n_func_vars": p.n_func_vars,
                                               "n_loop_vars": p.n_loop_vars},
            "relations": {k: dump_fr(f) for k, f in r.relations.items()},
            "loops": {k: {"name": fl.name, "start_time": fl.start_time, "end_time": fl.end_time,
                          "loops": [{"loop_code": lr.loop_code, "start_time": lr.start_time, "end_time": lr.end_time,
                                     "variables": {n: dump_vr(v) for n, v in lr.variables.items()}}
                                    for lr in fl.loops]}
                      for k, fl in r.loops.items()}}


OBS_HEADER = r"""
Definition o_ch (c : option Choice.choices) : json :=
  match c with
  | None => jnull
  | Some c => jobj [("valid", valid_json (Choice.valid c)); ("index", jnum (Choice.index c))]
  end.
Definition o_fr (f : FuncResult) : json :=
  jobj [("name", ostr (fr_name f)); ("infinite", jbool (fr_infinite f)); ("start_time", jnum (fr_start f));
        ("end_time", jnum (fr_end f)); ("variables", jstrs (fr_variables f)); ("inf_flows", ostr (fr_inf_flows f));
        ("index", jnum (fr_index f)); ("func_code", ostr (fr_func_code f));
        ("rvars", match fr_relation f with None => jnull | Some r => jstrs (rvars r) end);
        ("matrix", match fr_relation f with None => jnull | Some r => encode (rmat r) end);
        ("choices", o_ch (fr_choices f));
        ("bound", match fr_bound f with None => jnull | Some b => bound_json b end)].
Definition o_vr (v : VResult) : json :=
  jobj [("name", ostr (vr_name v)); ("is_m", jbool (vr_m v)); ("is_w", jbool (vr_w v)); ("is_p", jbool (vr_p v));
        ("choices", o_ch (vr_choices v));
        ("bound", match vr_bound v with None => jnull | Some b => jstr (L2S (Bound.bound_str b)) end)].
Definition o_lr (l : LoopResult) : json :=
  jobj [("loop_code", ostr (lr_code l)); ("start_time", jnum (lr_start l)); ("end_time", jnum (lr_end l));
        ("variables", jobj (map (fun kv => (fst kv, o_vr (snd kv))) (lr_variables l)))].
Definition o_fl (f : FuncLoops) : json :=
  jobj [("name", ostr (fl_name f)); ("start_time", jnum (fl_start f)); ("end_time", jnum (fl_end f));
        ("loops", jarr (map o_lr (fl_loops f)))].
Definition o_pg (p : Program) : json :=
  jobj [("program_path", ostr (pg_path p)); ("n_lines", jnum (pg_n_lines p)); ("n_func", jnum (pg_n_func p));
        ("n_loops", jnum (pg_n_loops p)); ("n_func_vars", jnum (pg_n_func_vars p));
        ("n_loop_vars", jnum (pg_n_loop_vars p))].
Definition o_rs (r : Result) : json :=
  jobj [("start_time", jnum (rs_start r)); ("end_time", jnum (rs_end r));
        ("program", match rs_program r with None => jnull | Some p => o_pg p end);
        ("relations", jobj (map (fun kv => (fst kv, o_fr (snd kv))) (rs_relations r)));
        ("loops", jobj (map (fun kv => (fst kv, o_fl (snd kv))) (rs_loops r)))].
Definition obs (o : anyobj) : res json :=
  match o with AResult r => Ok (o_rs r) | _ => Err (TypeError "not a Result") end.
"""

HEADER = r"""From Coq Require Import String Ascii List Bool ZArith.
From PM Require Import Semiring Poly Rel Json Result.
From PM Require Bound Choice.
Import ListNotations.
Open Scope string_scope.
""" + OBS_HEADER + r"""
Definition rj_eqb (a : res json) (b : option json) : bool :=
  match a, b with
  | Ok x, Some y => json_eqb x y
  | Err _, None => true
  | _, _ => false
  end.
Fixpoint bad {C : Type} (chk : C -> bool) (n : nat) (l : list C) : list nat :=
  match l with [] => [] | c :: t => if chk c then bad chk (S n) t else n :: bad chk (S n) t end.
(* (result, real to_dict, real to_dict of the reloaded result, real dump of the reloaded result);
   None where the real code raised *)
Definition chk (c : Result * option json * option json * option json) : bool :=
  let '(r, d1, d2, ob) := c in
  rj_eqb (to_dict (AResult r)) d1
  && rj_eqb (o <- reload (AResult r) ;; to_dict o) d2
  && rj_eqb (o <- reload (AResult r) ;; obs o) ob.
Definition which (c : Result * option json * option json * option json) : list bool :=
  let '(r, d1, d2, ob) := c in
  [rj_eqb (to_dict (AResult r)) d1; rj_eqb (o <- reload (AResult r) ;; to_dict o) d2;
   rj_eqb (o <- reload (AResult r) ;; obs o) ob].
"""

# ---------------------------------------------------------------------------------------------
# Coq literal printers
# ---------------------------------------------------------------------------------------------


class OutOfDomain(Exception):
    pass


def q(s):
    if not isinstance(s, str) or "\x00" in s:
        raise OutOfDomain(f"string {s!r}")
    return vlib.cq_str(s)


def cz(n):
    if type(n) is not int:
        raise OutOfDomain(f"int {n!r}")
    return f"({n})%Z"


def cb(b):
    if type(b) is not bool:
        raise OutOfDomain(f"bool {b!r}")
    return "true" if b else "false"


def cos(s):
    return "None" if s is None else f"(Some {q(s)})"


def cnat(n):
    if type(n) is not int or n < 0:
        raise OutOfDomain(f"nat {n!r}")
    return str(n)


def cj(v):
    """JSON value -> Coq literal"""
    if v is None:
        return "jnull"
    if v is True or v is False:
        return f"(jbool {cb(v)})"
    if type(v) is int:
        return f"(jnum {cz(v)})"
    if isinstance(v, str):
        return f"(jstr {q(v)})"
    if isinstance(v, (list, tuple)):
        return "(jarr [" + "; ".join(cj(x) for x in v) + "])"
    if isinstance(v, dict):
        return "(jobj [" + "; ".join(f"({q(k)}, {cj(x)})" for k, x in v.items()) + "])"
    raise OutOfDomain(f"json {v!r}")


def cojson(v):
    return "None" if v is RAISED else f"(Some {cj(v)})"


SCC = {"o": "O", "m": "M", "w": "W", "p": "P", "i": "I"}


def c_mono(m):
    if m.scalar not in SCC:
        raise OutOfDomain(f"scalar {m.scalar!r}")
    ds = "; ".join(f"({cnat(d[0])}, {cnat(d[1])})" for d in m.deltas)
    return f"(Mono {SCC[m.scalar]} [{ds}])"


def c_rel(r):
    rows = "; ".join("[" + "; ".join("[" + "; ".join(c_mono(m) for m in p.list) + "]" for p in row) + "]" for row in r.matrix)
    return f"(Rel [{'; '.join(q(v) for v in r.variables)}] [{rows}])"


def c_choices(c):
    v = "; ".join("[" + "; ".join("[" + "; ".join(cnat(x) for x in e) + "]" for e in vec) + "]" for vec in c.valid)
    return f"(Choice.mkC [{v}] {cz(c.index)})"


def c_hp(h):
    return f"(Bound.mkHP (Bound.L {q(h.op)}) [{'; '.join('Bound.L ' + q(v) for v in sorted(h.variables, reverse=True))}])"


def c_mwp(b):
    return f"(Bound.mkMB {c_hp(b.x)} {c_hp(b.y)} {c_hp(b.z)})"


def c_bound(b):
    return "[" + "; ".join(f"(Bound.L {q(k)}, {c_mwp(v)})" for k, v in b.bound_dict.items()) + "]"


def copt(x, f):
    return "None" if x is None else f"(Some {f(x)})"


def c_fr(f):
    if not isinstance(f.variables, list):
        raise OutOfDomain("variables")
    return ("(mkFR " + " ".join([cos(f.name), cb(f.infinite), cz(f.start_time), cz(f.end_time),
                                 "[" + "; ".join(q(v) for v in f.variables) + "]", cos(f.inf_flows), cz(f.index),
                                 cos(f.func_code), copt(f.relation, c_rel), copt(f.choices, c_choices),
                                 copt(f.bound, c_bound)]) + ")")


def c_vr(v):
    return ("(mkVR " + " ".join([cos(v.name), cb(v._is_m), cb(v._is_w), cb(v._is_p), copt(v.bound, c_mwp),
                                 copt(v.choices, c_choices)]) + ")")


def c_lr(l):
    vs = "; ".join(f"({q(k)}, {c_vr(v)})" for k, v in l.variables.items())
    return f"(mkLR {cos(l.loop_code)} {cz(l.start_time)} {cz(l.end_time)} [{vs}])"


def c_fl(f):
    return f"(mkFL {cos(f.name)} {cz(f.start_time)} {cz(f.end_time)} [{'; '.join(c_lr(l) for l in f.loops)}])"


def c_pg(p):
    return ("(mkProgram " + " ".join([cos(p.program_path), cz(p.n_lines), cz(p.n_func), cz(p.n_loops),
                                      cz(p.n_func_vars), cz(p.n_loop_vars)]) + ")")


def c_result(r):
    rel = "; ".join(f"({q(k)}, {c_fr(f)})" for k, f in r.relations.items())
    lo = "; ".join(f"({q(k)}, {c_fl(f)})" for k, f in r.loops.items())
    return f"(mkRS {cz(r.start_time)} {cz(r.end_time)} {copt(r.program, c_pg)} [{rel}] [{lo}])"


RAISED = object()


def real_triplet(M, r):
    """(to_dict, to_dict of reloaded, dump of reloaded) through real code and a JSON text round trip"""
    try:
        d1 = r.to_dict()
        text = json.dumps(d1)
    except Exception:
        return RAISED, RAISED, RAISED
    try:
        r2 = M.Result.from_dict(**json.loads(text))
    except Exception:
        return json.loads(text), RAISED, RAISED
    try:
        d2 = json.loads(json.dumps(r2.to_dict()))
    except Exception:
        d2 = RAISED
    try:
        ob = json.loads(json.dumps(dump_result(r2)))
    except Exception:
        ob = RAISED
    return json.loads(text), d2, ob


def correspondence(ctx, M, items, mism, stats):
    """items: list of (descr, Result object)"""
    cases, descr, skipped = [], [], 0
    for d, r in items:
        try:
            lit = c_result(r)
            d1, d2, ob = real_triplet(M, r)
            cases.append(f"({lit},\n   {cojson(d1)},\n   {cojson(d2)},\n   {cojson(ob)})")
            descr.append(d)
        except OutOfDomain:
            skipped += 1
    stats["corr_cases"] = len(cases)
    stats["corr_skipped_out_of_domain"] = skipped
    if not cases:
        mism.append("no correspondence case could be printed")
        return
    if not ctx.coq_ok:
        mism.append("model files did not build: correspondence not evaluated")
        return
    per = 150
    jobs, offs = [], {}
    for i in range(0, len(cases), per):
        chunk = cases[i:i + per]
        text = (HEADER + "Definition cases : list (Result * option json * option json * option json) :=\n [" +
                ";\n  ".join(chunk) + "].\nDefinition badl := Eval vm_compute in bad chk 0 cases.\n"
                "Eval vm_compute in badl.\n"
                "Eval vm_compute in map which (map (fun i => nth i cases (mkRS 0 0 None [] [], None, None, None)) "
                "(firstn 3 badl)).\n")
        name = f"c14_corr_{i // per}"
        jobs.append((name, text))
        offs[name] = i
    res = vlib.coq_eval_many(jobs, timeout=900)
    for name, (ok, out) in sorted(res.items()):
        vals = vlib.parse_eval_results(out)
        if not ok or not vals:
            mism.append(f"{name}.v did not evaluate: " + out[-600:])
            continue
        body = vals[0].strip()
        if body != "[]":
            idx = [int(t) for t in body.strip("[]").replace(";", " ").split()]
            which = vals[1] if len(vals) > 1 else ""
            mism.append(f"model and real code differ on {len(idx)} case(s) of {name}; first: {descr[offs[name] + idx[0]]}; "
                        f"[to_dict; to_dict.from_dict.to_dict; dump of reloaded] agree = {which}")


# ---------------------------------------------------------------------------------------------
# search on the real code
# ---------------------------------------------------------------------------------------------

def vectors(k):
    return itertools.product(DOMAIN, repeat=k)


def cmp_fields(path, a, b, names, out):
    for n in names:
        va, vb = getattr(a, n), getattr(b, n)
        if va != vb or type(va) is not type(vb):
            out.append(("field", f"{path}.{n}", va, vb))


def cmp_choices(path, a, b, out):
    if (a is None) != (b is None):
        out.append(("choices", f"{path}.choices presence", None if a is None else a.valid, None if b is None else b.valid))
        return
    if a is None:
        return
    norm = lambda c: [[list(e) for e in v] for v in c.valid]
    if norm(a) != norm(b):
        out.append(("choices", f"{path}.choices.valid", norm(a), norm(b)))
    if a.index != b.index:
        out.append(("choices", f"{path}.choices.index", a.index, b.index))
    k = a.index if a.index >= 0 else 0
    if k <= MAXK:
        for n in range(k + 1):
            for v in vectors(n):
                try:
                    x, y = a.is_valid(*v), b.is_valid(*v)
                except Exception as e:
                    out.append(("choices", f"{path}.choices.is_valid raises", list(v), vlib.exc_sig(e)))
                    return
                if x != y:
                    out.append(("choices", f"{path}.choices.is_valid{v}", x, y))
                    return
    if a.infinite != b.infinite or bool(a) != bool(b):
        out.append(("choices", f"{path}.choices.infinite", a.infinite, b.infinite))


def cmp_relation(M, path, a, b, index, out, counters):
    if (a is None) != (b is None):
        out.append(("relation", f"{path}.relation presence", a is not None, b is not None))
        return
    if a is None:
        return
    if a.variables != b.variables:
        out.append(("relation", f"{path}.relation.variables", a.variables, b.variables))
        return
    if len(a.matrix) != len(b.matrix) or any(len(x) != len(y) for x, y in zip(a.matrix, b.matrix)):
        out.append(("relation", f"{path}.relation.matrix shape", len(a.matrix), len(b.matrix)))
        return
    for i, (ra, rb) in enumerate(zip(a.matrix, b.matrix)):
        for j, (pa, pb) in enumerate(zip(ra, rb)):
            if not (pa == pb) or str(pa) != str(pb):
                out.append(("relation", f"{path}.relation.matrix[{i}][{j}]", str(pa), str(pb)))
                return
            for m in pb.list:
                if not all(isinstance(d, tuple) for d in m.deltas):
                    out.append(("relation", f"{path}.relation: a delta of the loaded matrix is not a tuple",
                                "tuple", type(m.deltas[0]).__name__))
                    return
    k = index if isinstance(index, int) and index >= 0 else 0
    for row in a.matrix:
        for p in row:
            for m in p.list:
                for d in m.deltas:
                    k = max(k, d[1] + 1)

    def both(what, fn, same):
        """fn on the original; if that works, fn on the loaded one must work and give the same"""
        try:
            va = fn(a)
        except Exception:
            return True          # the original cannot do it either: not a save/load question
        try:
            vb = fn(b)
        except Exception as e:
            out.append(("relation-raises", f"{path}.relation: {what} of the loaded relation raised {type(e).__name__}: {e}",
                        "no exception", vlib.exc_sig(e)))
            return False
        if not same(va, vb):
            out.append(("relation", f"{path}.relation.{what}", str(va)[:300], str(vb)[:300]))
            return False
        return True

    if k <= MAXK:
        for v in vectors(k):
            counters["apply_choice"] += 1
            if not both(f"apply_choice{v}", lambda r: r.apply_choice(*v).matrix, lambda x, y: x == y):
                return
    same_ch = lambda x, y: x.valid == y.valid and x.index == y.index
    if not both("eval", lambda r: r.eval(DOMAIN, k), same_ch):
        return
    if not both("composition with itself", lambda r: r.composition(r),
                lambda x, y: x.variables == y.variables and x.equal(y) and str(x) == str(y)):
        return
    if not both("eval of the composition with itself", lambda r: r.composition(r).eval(DOMAIN, k), same_ch):
        return
    counters["relations_used"] += 1


def cmp_bound(path, a, b, out):
    if (a is None) != (b is None):
        out.append(("bound", f"{path}.bound presence", a is not None, b is not None))
        return
    if a is None:
        return
    try:
        if not (a == b) or not (b == a):
            out.append(("bound", f"{path}.bound ==", True, False))
    except Exception as e:
        out.append(("bound", f"{path}.bound == raised", "no exception", vlib.exc_sig(e)))


def compare_results(M, a, b, counters):
    """differences between an original result a and the reloaded b"""
    out = []
    cmp_fields("result", a, b, ["start_time", "end_time"], out)
    if (a.program is None) != (b.program is None):
        out.append(("field", "result.program presence", a.program is not None, b.program is not None))
    elif a.program is not None:
        cmp_fields("program", a.program, b.program,
                   ["program_path", "n_lines", "n_func", "n_loops", "n_func_vars", "n_loop_vars"], out)
    if list(a.relations.keys()) != list(b.relations.keys()):
        out.append(("field", "result.relations keys", list(a.relations), list(b.relations)))
    else:
        for k in a.relations:
            fa, fb = a.relations[k], b.relations[k]
            p = f"relations[{k}]"
            cmp_fields(p, fa, fb, ["name", "infinite", "start_time", "end_time", "variables", "inf_flows", "index",
                                   "func_code"], out)
            cmp_relation(M, p, fa.relation, fb.relation, fa.index, out, counters)
            cmp_choices(p, fa.choices, fb.choices, out)
            cmp_bound(p, fa.bound, fb.bound, out)
    if list(a.loops.keys()) != list(b.loops.keys()):
        out.append(("field", "result.loops keys", list(a.loops), list(b.loops)))
    else:
        for k in a.loops:
            la, lb = a.loops[k], b.loops[k]
            cmp_fields(f"loops[{k}]", la, lb, ["name", "start_time", "end_time"], out)
            if len(la.loops) != len(lb.loops):
                out.append(("field", f"loops[{k}].loops length", len(la.loops), len(lb.loops)))
                continue
            for n, (xa, xb) in enumerate(zip(la.loops, lb.loops)):
                p = f"loops[{k}].loops[{n}]"
                cmp_fields(p, xa, xb, ["loop_code", "start_time", "end_time"], out)
                if list(xa.variables.keys()) != list(xb.variables.keys()):
                    out.append(("field", f"{p}.variables keys", list(xa.variables), list(xb.variables)))
                    continue
                for v in xa.variables:
                    va, vb = xa.variables[v], xb.variables[v]
                    cmp_fields(f"{p}.variables[{v}]", va, vb, ["name", "is_m", "is_w", "is_p"], out)
                    cmp_choices(f"{p}.variables[{v}]", va.choices, vb.choices, out)
                    if (va.bound is None) != (vb.bound is None):
                        out.append(("bound", f"{p}.variables[{v}].bound presence", va.bound is not None, vb.bound is not None))
                    elif va.bound is not None and not (va.bound == vb.bound and va.bound.bound_str == vb.bound.bound_str):
                        out.append(("bound", f"{p}.variables[{v}].bound ==", va.bound.bound_str, vb.bound.bound_str))
    return out


def chain(M, r, tmp, counters):
    """real save -> load -> save -> load -> save; returns list of (kind, what, expected, observed)"""
    out = []
    fa, fb, fc = (os.path.join(tmp, n) for n in ("a.json", "b.json", "c.json"))
    try:
        M.F.save_result(fa, r)
        r2 = M.F.load_result(fa)
        M.F.save_result(fb, r2)
        r3 = M.F.load_result(fb)
        M.F.save_result(fc, r3)
    except Exception as e:
        return [("chain-raises", f"save/load chain raised {type(e).__name__}: {e}", "no exception", vlib.exc_sig(e))], None
    ta, tb, tc = (open(f).read() for f in (fa, fb, fc))
    counters["chains"] += 1
    if ta != tb:
        ja, jb = json.loads(ta), json.loads(tb)
        out.append(("json", "the file saved from the loaded result differs from the first file: " + first_diff(ja, jb),
                    None, None))
    elif tb != tc:
        out.append(("json", "third file differs from the second: " + first_diff(json.loads(tb), json.loads(tc)), None, None))
    out += compare_results(M, r, r2, counters)
    return out, r2


def first_diff(a, b, path="$"):
    if type(a) is not type(b):
        return f"{path}: {a!r} vs {b!r}"
    if isinstance(a, dict):
        if list(a.keys()) != list(b.keys()):
            return f"{path}: keys {list(a.keys())} vs {list(b.keys())}"
        for k in a:
            d = first_diff(a[k], b[k], f"{path}.{k}")
            if d:
                return d
        return ""
    if isinstance(a, list):
        if len(a) != len(b):
            return f"{path}: length {len(a)} vs {len(b)}"
        for i, (x, y) in enumerate(zip(a, b)):
            d = first_diff(x, y, f"{path}[{i}]")
            if d:
                return d
        return ""
    return "" if a == b else f"{path}: {a!r} vs {b!r}"


def sig_of(kind, what):
    # stable: kind + the attribute path without indices / names
    import re
    w = re.sub(r"\[[^\]]*\]", "[]", what.split(":")[0])
    w = re.sub(r"\([^)]*\)", "", w)
    return ["C14", kind, w[:80]]


def kind_of_result(r):
    ks = set()
    if not r.relations and not r.loops:
        ks.add("nothing-analysed")
    for f in r.relations.values():
        if not f.variables:
            ks.add("no-vars")
        if f.infinite:
            ks.add("infinite-with-relation" if f.relation is not None else "infinite-no-relation")
        else:
            ks.add("finite-index0" if f.index == 0 else "finite")
    for fl in r.loops.values():
        ks.add("loop-mode" if fl.loops else "loop-mode-no-loops")
        for lr in fl.loops:
            if any(v.choices is None for v in lr.variables.values()):
                ks.add("loop-mode-unbounded-var")
    return sorted(ks)


def shrink_program(M, item, mode, sig, tmp, counters):
    """delete top-level statements of a generated program while the same failure signature remains"""
    if len(item) < 4:
        return item[1]
    _, src, ss, vs = item
    ss = list(ss)
    changed = True
    while changed and len(ss) > 1:
        changed = False
        for i in range(len(ss)):
            cand = ss[:i] + ss[i + 1:]
            s2 = gen_prog.render(cand, vs)
            try:
                r = analyse(M, s2, mode)
                diffs, _ = chain(M, r, tmp, counters)
            except Exception:
                continue
            if any(sig_of(k, w) == sig for k, w, _, _ in diffs):
                ss, src, changed = cand, s2, True
                break
    return src


def run(ctx):
    M = modules()
    failing, mism = [], []
    stats = {}
    counters = {"chains": 0, "apply_choice": 0, "relations_used": 0}
    kinds = {}
    samples = []
    distinct = set()
    items = []          # (descr, Result) for the correspondence
    nprog = ctx.n(40, 400)
    nsyn = ctx.n(120, 1200)
    tmp = tempfile.mkdtemp(prefix="c14_")
    t0 = time.time()
    analysis_errors = 0
    try:
        progs = programs(ctx, nprog)

        def fail(kind, what, inp, exp, obs):
            sg = sig_of(kind, what)
            if sum(1 for f in failing if f["sig"] == sg) < 2:
                failing.append({"what": what, "sig": sg, "input": inp, "expected": exp, "observed": obs})

        for item in progs:
            label, src = item[0], item[1]
            for mode in MODES:
                try:
                    r = analyse(M, src, mode)
                except Exception:
                    analysis_errors += 1      # C06's business, not a save/load question
                    continue
                for k in kind_of_result(r):
                    kinds[k] = kinds.get(k, 0) + 1
                diffs, r2 = chain(M, r, tmp, counters)
                try:
                    distinct.add(json.dumps(strip_times(r.to_dict()), sort_keys=True))
                except Exception:
                    pass
                items.append((f"{label} mode={mode}: {src!r}", r))
                if len(samples) < 4 and label in ("no-vars", "inf-while", "nested-loops", "no-binop") and mode in (MODES[1], MODES[4]):
                    samples.append({"program": src, "mode": list(mode), "kinds": kind_of_result(r),
                                    "saved": json.dumps(strip_times(r.to_dict()))[:400]})
                seen = set()
                for kind, what, exp, obs in diffs:
                    sg = tuple(sig_of(kind, what))
                    if sg in seen:
                        continue
                    seen.add(sg)
                    small = shrink_program(M, item, mode, list(sg), tmp, counters)
                    fail(kind, f"{what} [program {small!r}, mode {mode}]",
                         {"program": small, "mode": list(mode)}, exp, obs)
        # synthetic values
        syn_fail = 0
        for i in range(nsyn):
            r = synthetic(M, ctx.rng, i)
            items.append((f"synthetic#{i}: {json.dumps(safe_dict(r))[:300]}", r))
            diffs, r2 = chain(M, r, tmp, counters)
            kinds["synthetic"] = kinds.get("synthetic", 0) + 1
            try:
                distinct.add(json.dumps(r.to_dict(), sort_keys=True))
            except Exception:
                pass
            for kind, what, exp, obs in diffs:
                # synthetic values outside the domain produced by the analyses are reported separately:
                # a VResult / FuncResult whose choice object has no vector (never built by the analyses)
                if synthetic_out_of_domain(r):
                    syn_fail += 1
                    break
                fail(kind, f"{what} [synthetic result {json.dumps(safe_dict(r))[:600]}]",
                     {"synthetic": safe_dict(r)}, exp, obs)
        stats["synthetic_out_of_domain_differences"] = syn_fail
    finally:
        shutil.rmtree(tmp, ignore_errors=True)
    t_search = time.time() - t0
    # correspondence
    t1 = time.time()
    cap = ctx.n(450, 3000)
    if len(items) > cap:
        head = [it for it in items if not it[0].startswith("gen")]
        rest = [it for it in items if it[0].startswith("gen")]
        items = (head + rest)[:cap]
    correspondence(ctx, M, items, mism, stats)
    stats.update({
        "evaluations": counters["chains"] + counters["apply_choice"] + stats.get("corr_cases", 0),
        "save_load_save_chains": counters["chains"],
        "apply_choice_comparisons": counters["apply_choice"],
        "relations_evaluated_and_composed": counters["relations_used"],
        "distinct_nontrivial": len(distinct),
        "rule": "distinct saved JSON values (timestamps removed for analysis results) that went through a real "
                "save/load/save chain",
        "kinds": kinds,
        "programs": len(progs), "modes": [list(m) for m in MODES], "analysis_raised": analysis_errors,
        "samples": samples,
        "search_s": round(t_search, 1), "correspondence_s": round(time.time() - t1, 1),
    })
    need = ["no-vars", "finite-index0", "infinite-with-relation", "infinite-no-relation", "loop-mode", "finite"]
    missing = [k for k in need if not kinds.get(k)]
    if missing:
        mism.append(f"generator degenerate: no result of kind {missing}")
    return {"failing": failing, "corr_mismatch": mism, "stats": stats}


def synthetic_out_of_domain(r):
    """choice objects the analyses never build: no vector at all but an index other than the default -1
    (Choices.generate at index 0 yields [[]]; an infinite Choices is never stored in a result), or, for
    a VResult, no vector (get_result asserts a non-infinite choice)"""
    def odd(c, vres):
        return c is not None and len(c.valid) == 0 and (vres or c.index != -1)
    for f in r.relations.values():
        if odd(f.choices, False):
            return True
    for fl in r.loops.values():
        for lr in fl.loops:
            for v in lr.variables.values():
                if odd(v.choices, True):
                    return True
    return False


def strip_times(d):
    if isinstance(d, dict):
        return {k: strip_times(v) for k, v in d.items() if k not in ("start_time", "end_time")}
    if isinstance(d, list):
        return [strip_times(x) for x in d]
    return d


def safe_dict(r):
    try:
        return r.to_dict()
    except Exception as e:
        return {"to_dict raised": repr(e)}


def replay(ctx, data):
    M = modules()
    inp = data.get("input", data)
    if not isinstance(inp, dict) or "program" not in inp:
        r = run(ctx)
        return r["failing"][0] if r["failing"] else None
    tmp = tempfile.mkdtemp(prefix="c14_")
    counters = {"chains": 0, "apply_choice": 0, "relations_used": 0}
    try:
        mode = tuple(inp["mode"])
        r = analyse(M, inp["program"], mode)
        diffs, _ = chain(M, r, tmp, counters)
        for kind, what, exp, obs in diffs:
            return {"what": what, "sig": sig_of(kind, what), "input": inp, "expected": exp, "observed": obs}
    finally:
        shutil.rmtree(tmp, ignore_errors=True)
    return None

