"""C12: results do not depend on names, layout or equivalent spellings (metamorphic on the real tool,
function mode and loop mode), + Coq model correspondence on the transformed programs."""
import itertools
import json
import re
import vlib
import e2e
import gen_prog
import streams

ID = "C12"
LEVEL = "proof"
MODEL_TARGETS = ["theories/Analysis.vo"]
TRANSLATORS = ["semiring", "rules"]
LEVEL_TEXT = ("Theorems in coq/props/C12.v: the calculus derivation and the analysis model are equivariant under injective renamings (whatever the "
              "sorted order of the names), + and - have the same rule, redundant blocks and empty statements are transparent, do-while is while; "
              "metamorphic runs of the real tool (function and loop mode) on generated programs and the c_files corpus.")
LEVEL_NOTE = "Trusted: Coq kernel, reader, generators; results are compared modulo the renaming, dictionary key order is ignored."
TECHNIQUE = "Coq equivariance proofs over the model/specification + metamorphic testing of the real tool"
EXPLANATION = "see LEVEL_TEXT"
ASSUMPTIONS = ["renamings are injective and avoid C keywords / reserved names true,false"]

POOL = ["zz", "a1", "m_", "B", "k9", "Q", "aa", "_t", "y2", "Z0", "c", "hh", "p", "X", "d4", "b",
        # other shapes of identifier: all capitals, underscores, keyword prefixes, long names
        "LIMIT", "MAX_N", "NN", "A_", "_", "__x", "l1", "O0", "if_", "Int", "x_y_z", "TRUE", "False", "loop", "index", "i",
        "a_rather_long_variable_name_1",
        # short names, substrings of other words (keywords, `true`, `false`): a name test by containment instead of equality shows here
        "t", "s", "e", "a", "l", "r", "u", "al", "se", "ru", "ue", "fal", "tr", "in", "nt", "wh", "fo", "o", "do_", "el"]
IDENT = re.compile(r"\b([A-Za-z_][A-Za-z_0-9]*)\b")
KEEP = {"int", "long", "if", "else", "while", "do", "for", "return", "sizeof", "assert", "break", "f", "g"}


def rename_text(src, ren):
    return IDENT.sub(lambda m: ren.get(m.group(1), m.group(1)), src)


def names_of(src):
    return sorted({m for m in IDENT.findall(src) if m not in KEEP})


def transform_one(s, rng, mode):
    """transform a statement in a single-statement position (a loop body / branch)"""
    r = transform_tree([s], rng, mode, top=False)
    return r[0] if len(r) == 1 else ("block", r)


def open_if(s):
    """does the statement end in an if without else (a following `else` would bind to it)"""
    k = s[0]
    if k == "if":
        return True if s[3] is None else open_if(s[3])
    if k == "while":
        return open_if(s[2])
    if k == "for":
        return open_if(s[4])
    return False


def unbrace(s, before_else=False):
    """remove the redundant braces around a single statement in a body position"""
    if s is not None and s[0] == "block" and len(s[1]) == 1:
        x = s[1][0]
        if x[0] == "s" and x[1].startswith("int "):
            return s
        if before_else and open_if(x):
            return s
        return x
    return s


def transform_tree(tree, rng, mode, top=True):
    out = []
    for s in tree:
        k = s[0]
        if mode == "unbrace":
            if k == "block":
                s = ("block", transform_tree(s[1], rng, mode))
            elif k in ("while", "dowhile"):
                s = (k, s[1], unbrace(transform_tree([s[2]], rng, mode)[0]))
            elif k == "if":
                els = None if s[3] is None else unbrace(transform_tree([s[3]], rng, mode)[0])
                s = ("if", s[1], unbrace(transform_tree([s[2]], rng, mode)[0], before_else=els is not None), els)
            elif k == "for":
                s = ("for", s[1], s[2], s[3], unbrace(transform_tree([s[4]], rng, mode)[0])) + tuple(s[5:])
            out.append(s)
            continue
        if k == "block":
            s = ("block", transform_tree(s[1], rng, mode, top=True))
        elif k in ("while", "dowhile"):
            kk = k
            if mode == "dowhile":
                kk = "dowhile" if k == "while" else "while"
            s = (kk, s[1], transform_one(s[2], rng, mode))
        elif k == "if":
            s = ("if", s[1], transform_one(s[2], rng, mode), None if s[3] is None else transform_one(s[3], rng, mode))
        elif k == "for":
            s = ("for", s[1], s[2], s[3], transform_one(s[4], rng, mode)) + tuple(s[5:])
        if mode == "braces":
            r = rng.random()
            if r < 0.25:
                s = ("block", [s])
            elif r < 0.4:
                s = ("block", [("s", ";"), s])
            elif r < 0.5:
                s = ("block", [s, ("s", ";"), ("block", [])])
        out.append(s)
    if mode == "braces" and rng.random() < 0.3:
        out.insert(rng.randrange(len(out) + 1), ("s", ";"))
    return out


def obs(d, ren=None):
    """observable of a function record keyed by (renamed-back) variable names"""
    if d is None:
        return None
    inv = {v: k for k, v in (ren or {}).items()}
    back = lambda v: inv.get(v, v)
    vs = [back(v) for v in d["variables"]]
    o = {"infinite": d["infinite"], "index": d["index"], "variables": sorted(vs), "valid": d["valid"]}
    rel = d.get("apply")
    if rel is not None and not d["infinite"] and d["index"] <= 6:
        mats = []
        for n_, c in enumerate(itertools.product((0, 1, 2), repeat=d["index"])):
            if d["valid"] is not None and not d["valid"][n_]:
                mats.append(None)      # the property speaks of the matrix at every VALID choice
                continue
            m = rel.apply_choice(*c).matrix
            mats.append(sorted((vs[i], vs[j], m[i][j]) for i in range(len(vs)) for j in range(len(vs))))
        o["matrices"] = mats
    if d.get("bound") is not None:
        o["bound"] = {back(k): ";".join(",".join(sorted(back(x) for x in part.split(",") if x)) for part in v.split(";")) for k, v in d["bound"].items()}
        o["bound"] = dict(sorted(o["bound"].items()))
    return o


def loop_obs(src, ren=None, strict=False):
    vlib.import_pymwp()
    from pymwp import LoopAnalysis
    inv = {v: k for k, v in (ren or {}).items()}
    try:
        res = vlib.with_timeout(lambda: LoopAnalysis.run(e2e.parse(src), strict=strict), 30)
    except Exception as e:
        return ["exc"] + vlib.exc_sig(e)
    out = []
    for fname, fl in sorted(res.loops.items()):
        for lp in fl.loops:
            vars_ = {}
            for v, r in lp.variables.items():
                b = r.bound.bound_str if r.bound else None
                if b is not None:
                    b = ";".join(",".join(sorted(inv.get(x, x) for x in part.split(",") if x)) for part in b.split(";"))
                vars_[inv.get(v, v)] = [r.is_m, r.is_w, r.is_p, b]
            out.append(dict(sorted(vars_.items())))
    return out


def run(ctx):
    vlib.import_pymwp()
    n = ctx.n(120, 1200)
    failing, mism, coq_cases, recs = [], [], [], []
    kinds = {"rename": 0, "minus": 0, "braces": 0, "dowhile": 0, "order": 0, "loop-rename": 0, "loop-order": 0}

    def check(kind, a, b, ren, fin, strict, fname="f"):
        ra, rb = e2e.run_real(a, fin, strict), e2e.run_real(b, fin, strict)
        inp = {"src": a, "twin": b, "kind": kind, "rename": ren, "opts": {"fin": fin, "strict": strict}}
        if ra["exc"] or rb["exc"]:
            if {"ParseError", "Timeout"} & {(ra["exc"] or [None])[0], (rb["exc"] or [None])[0]}:
                return
            failing.append({"what": f"raise: {kind}: {ra['exc']} / {rb['exc']}", "sig": ["C12", "raise", kind], "input": inp})
            return
        da, db = ra["funcs"].get(fname), rb["funcs"].get(fname)
        oa, ob = obs(da), obs(db, ren)
        kinds[kind] += 1
        if oa != ob:
            fld = "presence" if (oa is None or ob is None) else [k for k in oa if oa[k] != ob.get(k)][0]
            failing.append({"what": f"{kind}: field {fld} changes under the transformation", "sig": ["C12", kind, fld], "input": inp,
                            "expected": None if oa is None else (oa.get(fld) if fld != "matrices" else "same matrices"),
                            "observed": None if ob is None else (ob.get(fld) if fld != "matrices" else "different")})
        if db is not None:
            recs.append(db)
            if db["typed"] is not None and db["index"] <= 5 and not strict:
                coq_cases.append((f"{kind}\n{b}", db, not fin))

    def loop_check(kind, a, b, strict):
        la, lb = loop_obs(a, None, strict), loop_obs(b, None, strict)
        kinds["loop-" + kind] = kinds.get("loop-" + kind, 0) + 1
        if la != lb:
            failing.append({"what": f"loop-{kind}: loop-mode result changes under the transformation ({len(la)} vs {len(lb)} loops)",
                            "sig": ["C12", "loop-" + kind], "input": {"src": a, "twin": b, "kind": "loop-" + kind, "opts": {"strict": strict}},
                            "expected": la, "observed": lb})

    # directed family: the guard of a counted for loop mentioned only inside a (brace-less / braced) branch of its body
    for i in range(ctx.n(24, 200)):
        r = ctx.rng
        vs = ["x", "y", "z"]
        G = r.choice(vs)
        o1, o2 = [v for v in vs if v != G]
        sg = r.choice([f"{o1} = {o2} + {G};", f"{G} = {o1} + {o2};", f"{o1} = {G};", f"{G} = {o1} * {o1};", f"{o1} = {G} * {o2};"])
        so = r.choice([f"{o1} = {o1} + {o2};", f"{o2} = {o1};", f"{o1} = {o2} * {o2};"])
        form = r.randrange(4)
        cnd = f"{o1} > 0"
        def ifs(b):
            L, R = ("{ ", " }") if b else ("", "")
            if form == 0:
                return f"if ({cnd}) {L}{sg}{R}"
            if form == 1:
                return f"if ({cnd}) {L}{sg}{R} else {L}{so}{R}"
            if form == 2:
                return f"if ({cnd}) {L}{so}{R} else {L}{sg}{R}"
            return f"if ({cnd}) {L}{so}{R} else if ({o2} > 0) {L}{sg}{R}"
        pre = so + " " if r.random() < 0.5 else ""
        outer = r.choice(["%s", "while (" + o2 + " > 0) { %s }", "%s " + so])
        mk = lambda b: "int f(int x, int y, int z, int i)\n{\n" + outer % f"for (i = 0; i < {G}; i++) {{ {pre}{ifs(b)} }}" + "\n}\n"
        fin, strict = r.random() < 0.5, r.random() < 0.3
        check("braces", mk(False), mk(True), None, fin, strict)
        loop_check("braces", mk(False), mk(True), strict)

    # directed family (+ / -): both operands the SAME variable, the target one of them or another one, straight-line and in loops
    for i in range(ctx.n(12, 80)):
        r = ctx.rng
        t, a, b = r.choice([("x", "y", "z"), ("x", "x", "y"), ("y", "x", "x"), ("z", "z", "z")])
        st = r.choice([f"{t} = {a} + {a};", f"{t} = {t} + {t};", f"{t} = {a} + {a}; {b} = {t} + {b};", f"{a} = {b} + {b}; {t} = {a} + {a};"])
        wrap = r.choice(["%s", "while (z > 0) { %s }", "for (i = 0; i < z; i++) { %s }" if "z =" not in st else "while (y > 0) { %s }",
                         "if (x > 0) { %s } else { y = x + z; }"])
        a_ = "int f(int x, int y, int z, int i)\n{\n  " + wrap % st + "\n}\n"
        check("minus", a_, a_.replace(" + ", " - "), None, r.random() < 0.5, r.random() < 0.3)

    # directed family (loop mode, function order): a function whose loop fails for every choice / for some choices, and a function with a
    # well-behaved loop, in both orders (anything a loop leaves behind must not reach the loops analysed after it)
    for i in range(ctx.n(16, 120)):
        r = ctx.rng
        bad = r.choice(["while (z > 0) { x = x * x; }", "while (y > 0) { x = x + x; y = x * x; }", "for (i = 0; i < z; i++) { y = y * y; }",
                        "while (z > 0) { x = y + x; y = x + y; }", "while (x > 0) { y = y * x; x = y + z; }"])
        good = r.choice(["while (z > 0) { x = y + z; }", "for (i = 0; i < z; i++) { x = x + y; }", "while (x > 0) { y = z; x = y + y; }",
                         "while (z > 0) { x = y * z; y = z + z; }"])
        fb = "int bad(int x, int y, int z, int i)\n{\n  " + bad + "\n}\n"
        fg = "int good(int x, int y, int z, int i)\n{\n  " + good + ("\n  " + r.choice([good, bad]) if r.random() < 0.3 else "") + "\n}\n"
        loop_check("order", fg + fb, fb + fg, r.random() < 0.3)

    # directed family: a loop whose body holds a statement and then a nested loop that fails for every choice (the analysis leaves the
    # body early there): the result must not depend on an extra pair of braces around the body or around the inner loop
    for i in range(ctx.n(16, 120)):
        r = ctx.rng
        pre_ = r.choice(["x = y;", "x = y + z;", "y = x;", "x = y * y;", ""])
        inner = r.choice(["while (z > 0) { z = z + z; }", "while (y > 0) { x = x * x; }", "while (z > 0) { z = z * x; x = z + z; }",
                          "for (i = 0; i < y; i++) { z = z + z; }", "do { z = z + z; } while (z > 0);"])
        post_ = r.choice(["", "y = z;", "x = x + y;"])
        head = r.choice(["while (x > 0)", "for (i = 0; i < y; i++)" if "i < y" not in inner else "while (y > 0)", "while (y > z)"])
        a_ = f"int f(int x, int y, int z, int i)\n{{\n  {head} {{ {pre_} {inner} {post_} }}\n}}\n"
        form = r.randrange(3)
        if form == 0:
            b_ = f"int f(int x, int y, int z, int i)\n{{\n  {head} {{ {{ {pre_} {inner} {post_} }} }}\n}}\n"
        elif form == 1:
            b_ = f"int f(int x, int y, int z, int i)\n{{\n  {head} {{ {pre_} {{ {inner} }} {post_} }}\n}}\n"
        else:
            b_ = f"int f(int x, int y, int z, int i)\n{{\n  {{ {head} {{ {{ {pre_} }} {inner} ; {post_} }} }}\n}}\n"
        strict = r.random() < 0.3
        check("braces", a_, b_, None, r.random() < 0.5, strict)
        loop_check("braces", a_, b_, strict)

    # directed family: EVERY name of the pool in the guard position of a counted loop / in a loop condition / as an operand
    for nm in POOL:
        if nm in KEEP or nm in ("i", "x", "y"):
            continue
        base = "int f(int x, int y, int n, int i)\n{\n  for (i = 0; i < n; i++) { x = x + y; }\n  while (n > y) { y = y + n; }\n}\n"
        ren = {"n": nm}
        strict = ctx.rng.random() < 0.5
        check("rename", base, rename_text(base, ren), ren, ctx.rng.random() < 0.5, strict)
        la, lb = loop_obs(base, None, strict), loop_obs(rename_text(base, ren), ren, strict)
        kinds["loop-rename"] += 1
        if la != lb:
            failing.append({"what": f"loop-rename: loop-mode result changes when the guard is called {nm!r}", "sig": ["C12", "loop-rename"],
                            "input": {"src": base, "rename": ren, "opts": {"strict": strict}}, "expected": la, "observed": lb})
    # directed family: a loop / conditional directly (without braces) under a loop / conditional, against the braced spelling
    heads = ["for (i = 0; i < n; i++)", "while (x > 0)", "if (y > 0)", "do", "if (y > 0) x = y; else"]
    inners = ["for (i = 0; i < n; i++) { x = x + y; }", "while (y > 0) { y = x; }", "do { x = x + y; } while (y > 0);",
              "for (j = 0; j < m; j++) while (y > 0) { y = x + x; }"]
    for h in heads:
        for inner in inners:
            if "i < n" in h and "i < n" in inner:
                continue
            tail = " while (x > y);" if h == "do" else ""
            a_ = f"int f(int x, int y, int n, int m, int i, int j)\n{{\n  {h} {inner}{tail}\n}}\n"
            b_ = f"int f(int x, int y, int n, int m, int i, int j)\n{{\n  {h} {{ {inner} }}{tail}\n}}\n"
            strict = ctx.rng.random() < 0.3
            check("braces", a_, b_, None, ctx.rng.random() < 0.5, strict)
            loop_check("braces", a_, b_, strict)

    for i in range(n):
        cfg = streams.cfg_for(ctx.rng, 5)
        g = gen_prog.Gen(ctx.rng, cfg)
        tree = g.program()
        src = gen_prog.render(tree, g.vars)
        fin = ctx.rng.random() < 0.5
        strict = ctx.rng.random() < 0.3
        # renaming (order-changing)
        ns = names_of(src)
        fresh = ctx.rng.sample(POOL, len(ns)) if len(ns) <= len(POOL) else None
        if fresh:
            ren = dict(zip(ns, fresh))
            check("rename", src, rename_text(src, ren), ren, fin, strict)
            if i % 3 == 0:
                la, lb = loop_obs(src, None, strict), loop_obs(rename_text(src, ren), ren, strict)
                kinds["loop-rename"] += 1
                if la != lb:
                    failing.append({"what": "loop-rename: loop-mode result changes under renaming", "sig": ["C12", "loop-rename"],
                                    "input": {"src": src, "rename": ren, "opts": {"strict": strict}}, "expected": la, "observed": lb})
        check("minus", src, src.replace(" + ", " - "), None, fin, strict)
        check("braces", src, gen_prog.render(transform_tree(tree, ctx.rng, "braces"), g.vars), None, fin, strict)
        check("dowhile", src, gen_prog.render(transform_tree(tree, ctx.rng, "dowhile"), g.vars), None, fin, strict)
        ub = gen_prog.render(transform_tree(tree, ctx.rng, "unbrace"), g.vars)
        if ub != src:
            check("braces", src, ub, None, fin, strict)
        if i % 2 == 0:
            # loop mode: the set of analysed loops and their results under the layout transformations (brace-less nesting included)
            dw = gen_prog.render(transform_tree(transform_tree(tree, ctx.rng, "unbrace"), ctx.rng, "dowhile"), g.vars)
            loop_check("dowhile", ub, dw, strict)
            loop_check("braces", src, ub, strict)
            loop_check("braces", src, gen_prog.render(transform_tree(tree, ctx.rng, "braces"), g.vars), strict)
        # function order
        g2 = gen_prog.Gen(ctx.rng, streams.cfg_for(ctx.rng, 4))
        src2 = gen_prog.render(g2.program(), g2.vars, fname="g")
        ab, ba = src + "\n" + src2, src2 + "\n" + src
        for fname in ("f", "g"):
            check("order", ab, ba, None, fin, strict, fname)
        if i % 2 == 1:
            loop_check("order", ab, ba, strict)         # loop mode: the loops of f and g, whichever function comes first
    if ctx.coq_ok:
        mism += e2e.coq_compare("c12", coq_cases[: ctx.n(300, 3000)])
    else:
        mism.append("model not built: analysis correspondence not run")
    distinct = len({repr(d["typed"]) for d in recs if d.get("typed") and streams.nontrivial(d)})
    stats = {"evaluations": sum(kinds.values()), "distinct_nontrivial": distinct,
             "rule": "each generated function compared with its transformed twin (order-changing injective renaming, + -> -, extra braces / empty statements, "
                     "while <-> do-while, function order; loop mode for renaming) modulo the renaming; non-trivial = distinct typed function with a site and a loop/branch",
             "samples": [{"kind": "rename", "names": POOL[:4]}], "per_transformation": kinds, "coq_model_cases": min(len(coq_cases), ctx.n(300, 3000))}
    return {"failing": failing, "corr_mismatch": mism, "stats": stats}


def replay(ctx, data):
    vlib.import_pymwp()
    inp = data.get("input", data)
    if "twin" not in inp:
        return None
    o = inp.get("opts", {})
    if str(inp.get("kind", "")).startswith("loop-"):
        la, lb = loop_obs(inp["src"], None, o.get("strict", False)), loop_obs(inp["twin"], None, o.get("strict", False))
        return None if la == lb else {"what": f"{inp['kind']}: differs", "sig": data.get("sig"), "input": inp}
    ra, rb = e2e.run_real(inp["src"], o.get("fin", False), o.get("strict", False)), e2e.run_real(inp["twin"], o.get("fin", False), o.get("strict", False))
    if ra["exc"] or rb["exc"]:
        return {"what": "raise", "sig": ["C12", "raise", inp.get("kind")], "input": inp}
    for fname in ("f", "g"):
        if obs(ra["funcs"].get(fname)) != obs(rb["funcs"].get(fname), inp.get("rename")):
            return {"what": f"{inp.get('kind')}: differs", "sig": data.get("sig"), "input": inp}
    return None
