"""C07: unsupported statements are dropped exactly, and only they.

Search (metamorphic, real pymwp): a random function the gate accepts, k unsupported statements over
fresh identifiers inserted at random / all block positions (function body, nested blocks, loop and
branch bodies).  Expected: after Coverage.ast_mod the tree IS the original tree and the gate accepts
it; Analysis.run and LoopAnalysis.run give the original function's result (to_dict minus time
stamps), with fin on/off; with strict=True the function (resp. every loop holding an insertion) is
absent; a function the gate accepts is left untouched by ast_mod.
Correspondence (Coq model vs real code, compared in Coq): omit node paths, tree after ast_mod,
Analysis.syntax_check (strict on/off, function and loop roots); dumper round trips.
"""
from copy import deepcopy

import vlib
import pyc_dump as D
import syntax_common as S

ID = "C07"
LEVEL = "proof"
TRANSLATORS = ["syntax", "pycschema"]
MODEL_TARGETS = ["theories/Syntax.vo", "theories/FileIO.vo"]
COQ_TARGETS = ["theories/FileIO.vo"]      # imported by the shared correspondence header (syntax_common.COQ_HEADER)
EXPLANATION = ("Theorems over all trees: the removal pass makes the gate accept (idempotent), leaves accepted trees untouched, "
               "and undoes any insertion of self-rejected statements over fresh identifiers at any block position; "
               "strict mode refuses. Model tied to /repo by generated tables + correspondence of omit paths, trees after ast_mod, syntax_check.")
ASSUMPTIONS = ["pycparser parse trees are represented faithfully by tools/pyc_dump.py (round trip validated on every run)",
               "equality of analysis results is observed on the real tool (metamorphic runs); the relation algebra is modelled elsewhere",
               "the clear list is a list of closures over object identities; the model applies them in one pass over original positions (commuting effects)"]
LEVEL_TEXT = ("Machine-checked theorems about the executable Coq model of Coverage / ast_mod over all generic trees, model tied to the code by "
              "generated tables + differential correspondence; loop mode: which loops are inspected and in which state, in strict and in default mode "
              "(C07_loop_mode_*: strict inspects exactly the fully supported non-empty loops, untouched; default mode inspects each loop on its own cleaned "
              "tree); result invariance under insertion (block positions and brace-less positions) observed metamorphically on the real tool.")
LEVEL_NOTE = "Trusted: Coq kernel, translators, pyc_dump, harness. No axioms."
TECHNIQUE = "Coq proof over a generic AST + metamorphic search + model/code correspondence"

# unsupported statements over fresh identifiers (u0 u1 u2 arr pp st g h q0 aa LL TT are never used by the generator)
UNSUP = [
    "u0 = g(u1);", "g();", "h(u0, u1);", "arr[u0] = u1;", "u0 = arr[u1];", "u0 += u1;", "u0 -= 1;", "u0 = u1 ? u2 : 1;",
    "switch (u0) { case 1: u1 = 2; break; default: u1 = 3; }", "goto LL;", "int q0 = u0;", "int *pp;", "int aa[3];",
    "u0 = u1 + u2 + u1;", "u0 = u1 * (u2 + 1);", "u0 = *pp;", "*pp = u0;", "u0 = &u1;", "for (;;) { u0 = u0 + 1; }",
    "for (u0 = 0; u0 < 10; u0++) { u1 = u1 + 1; }", "u0 = u1 / u2;", "u0 = u1 % 2;", "u0 = st.fld;", "u0 = (u1 < u2);",
    "for (u0 = 0; u0 < u1; u0++) { u1 = u1 + 1; }", "for (u0 = 0; u0 < u1; u0++) { u2 = u2 + u1; }",     # guard written / read in the body
    "for (u0 = 0; u0 < u1; u0++) u1 = u2;",
    "u0 = ~u1;", "u0 = h(u1) + 1;", "u0 = sizeof(int);", "u0 = (int)(int)u1;", "u0 = u1 = u2;", "u0 = u1 << 1;",
]
UNSUP_D12 = ["typedef int TT;", "#pragma omp parallel\n"]       # block-level typedef / pragma (see C19 D12)
KINDS = set()
UNSUP_LOOPY = ["for (;;) { while (u0 > 0) { u0 = u0 - 1; } }", "switch (u0) { case 1: while (u1 > 0) { u1--; } }"]


def strip_times(d):
    if isinstance(d, dict):
        return {k: strip_times(v) for k, v in d.items() if k not in ("start_time", "end_time") and not k.startswith("dur_")}
    if isinstance(d, list):
        return [strip_times(x) for x in d]
    return d


def parse_stmt(text):
    ast = S.parse("void t_(void){\n" + text + "\n}")
    items = ast.ext[0].body.block_items
    assert len(items) == 1, text
    return items[0]


def blocks(f):
    """every Compound node of function f (identity), preorder"""
    out = []

    def go(n):
        if type(n).__name__ == "Compound":
            out.append(n)
        for _, _, c in D.children(n):
            go(c)
    go(f.body)
    return out


SLOT_ATTRS = {"If": ("iftrue", "iffalse"), "While": ("stmt",), "DoWhile": ("stmt",), "For": ("stmt",)}


def slots(f):
    """[(owner node, attribute)] of every brace-less single-statement position of f that holds `;` (a branch or a loop body),
    preorder: the other kind of statement position, besides the positions of a block"""
    out = []

    def go(n):
        for a in SLOT_ATTRS.get(type(n).__name__, ()):
            if type(getattr(n, a, None)).__name__ == "EmptyStatement":
                out.append((n, a))
        for _, _, c in D.children(n):
            go(c)
    go(f.body)
    return out


def insert(f, plan):
    """plan: [(block index, position, stmt text)] applied on a deep copy, positions w.r.t. the ORIGINAL
    lists (several insertions at one position keep their order); block index -1: position = number of a
    brace-less `;` slot (slots(f)), whose `;` is REPLACED by the statement.  Returns (copy, [inserted nodes])."""
    g = deepcopy(f)
    bl = blocks(g)
    sl = slots(g)
    ins = []
    by_block = {}
    for b, pos, text in plan:
        if b == -1:
            if pos < len(sl):
                owner, attr = sl[pos]
                n = parse_stmt(text)
                setattr(owner, attr, n)
                ins.append(n)
            continue
        by_block.setdefault(b, []).append((pos, text))
    for b, lst in by_block.items():
        blk = bl[b]
        items = list(blk.block_items or [])
        new = []
        for i in range(len(items) + 1):
            for pos, text in lst:
                if pos == i:
                    n = parse_stmt(text)
                    ins.append(n)
                    new.append(n)
            if i < len(items):
                new.append(items[i])
        blk.block_items = new
    return g, ins


def run_modes(ast, name, loopy_ok=True):
    """results of the four runs for function `name` (to_dict minus times), exceptions as tagged values"""
    from pymwp import Analysis, LoopAnalysis
    out = {}
    for key, fn in (("func", lambda a: Analysis.run(a)), ("func_fin", lambda a: Analysis.run(a, fin=True)),
                    ("loop", lambda a: LoopAnalysis.run(a))):
        a = deepcopy(ast)
        try:
            r = vlib.with_timeout(fn, 15, a)
            if key == "loop":
                out[key] = strip_times(r.loops[name].to_dict()) if name in r.loops else None
            else:
                out[key] = strip_times(r.relations[name].to_dict()) if name in r.relations else None
        except vlib.CaseTimeout:
            out[key] = "timeout"
        except Exception as e:
            out[key] = {"exc": vlib.exc_sig(e)}
    return out


def contains(node, targets):
    ids = {id(t) for t in targets}
    stack = [node]
    while stack:
        n = stack.pop()
        if id(n) in ids:
            return True
        stack.extend(c for _, _, c in D.children(n))
    return False


def check_case(src, plan):
    """src: one supported function named f.  Returns list of failing dicts."""
    from pymwp import Coverage, Analysis, LoopAnalysis, FindLoops
    fails = []
    inp = {"src": src, "plan": [list(p) for p in plan]}

    def fail(what, sig, exp, obs):
        base = [x for x in sig if x not in KINDS]
        fails.append({"what": what, "sig": ["C07"] + sig, "base": base, "input": inp, "expected": exp, "observed": obs})
    ast = S.parse(src)
    f = ast.ext[-1]
    name = f.decl.name
    base_tree = D.dump(f)
    base_c = D.to_c(f)
    # supported function untouched
    g0 = deepcopy(f)
    c0 = Coverage(g0)
    if not c0.full:
        return None
    c0.ast_mod()
    if D.dump(g0) != base_tree or D.to_c(g0) != base_c:
        fail("untouched: ast_mod changes a function the gate accepts", ["supported-modified"], base_c, D.to_c(g0))
    if not plan:
        return fails
    g, ins = insert(f, plan)
    if not ins:
        # the plan names no position of THIS function (e.g. a brace-less slot the function does not have -- a shrunk case replayed on
        # another version of the code): nothing was inserted, there is nothing to judge
        return fails
    kinds = sorted({type(n).__name__ for n in ins})
    KINDS.update(kinds)
    loopy = any(t in UNSUP_LOOPY for _, _, t in plan)
    # exact removal
    g1 = deepcopy(g)
    odd = sorted({_container(g, n) for n in ins} - {"FuncDef", "If", "While", "DoWhile", "For"})
    if odd:
        # a block that is not the body of the function / a branch / a loop (e.g. under a label): one root cause, one report
        try:
            c1 = Coverage(g1)
            c1.ast_mod()
            if D.dump(g1) != base_tree:
                fail(f"kept: an unsupported statement inserted in a block under {odd} survives the removal pass "
                     f"(gate says full={Coverage(g1).full})", ["kept-under"] + odd, base_c, D.to_c(g1))
        except Exception as e:
            fail(f"raises: Coverage/ast_mod raises {type(e).__name__}", ["raises", type(e).__name__] + kinds, "no exception", vlib.exc_sig(e))
        return fails
    try:
        c1 = Coverage(g1)
        if c1.full:
            fail("not-rejected: an inserted unsupported statement is accepted by the gate", ["inserted-accepted"] + kinds, "not full", "full")
            return fails
        c1.ast_mod()
        after = D.dump(g1)
        if after != base_tree:
            fail(f"removal: ast_mod of the function with inserted {kinds} is not the original function", ["removal-not-exact"] + kinds,
                 base_c, D.to_c(g1))
        elif not Coverage(g1).full:
            fail("idempotent: the gate rejects the function after ast_mod", ["not-full-after"] + kinds, "full", "not full")
    except Exception as e:
        fail(f"raises: Coverage/ast_mod raises {type(e).__name__}", ["raises", type(e).__name__] + kinds, "no exception", vlib.exc_sig(e))
    # results unchanged, both modes, fin on/off
    ast2 = deepcopy(ast)
    ast2.ext[-1] = g
    r0, r1 = run_modes(ast, name), run_modes(ast2, name)
    if loopy and isinstance(r1["loop"], dict) and "loops" in r1["loop"] and isinstance(r0["loop"], dict):
        # loops nested inside an inserted (unsupported) statement are lifted and analysed on their own by design
        # (C19): the ORIGINAL loops' results must be unchanged and in order
        import re
        r1 = dict(r1)
        r1["loop"] = dict(r1["loop"])
        r1["loop"]["loops"] = [l for l in r1["loop"]["loops"] if not re.search(r"\bu[0-2]\b", l.get("loop_code", ""))]
        if not r1["loop"]["loops"]:
            del r1["loop"]["loops"]
    for key in ("func", "func_fin", "loop"):
        if r0[key] == "timeout" or r1[key] == "timeout" or (isinstance(r0[key], dict) and "exc" in r0[key]):
            continue
        if r0[key] != r1[key]:
            if isinstance(r1[key], dict) and "exc" in r1[key]:
                fail(f"result({key}): run raises {r1[key]['exc'][0]} after inserting {kinds}", ["result-" + key, "raises", r1[key]["exc"][0]] + kinds,
                     "the original result", r1[key])
            else:
                fail(f"result({key}): analysis result changes after inserting {kinds}", ["result-" + key, "differs"] + kinds, r0[key], r1[key])
    # strict
    for fin in (False, True):       # strict refuses whatever the other options are
        try:
            a3 = deepcopy(ast2)
            rs = vlib.with_timeout(lambda: Analysis.run(a3, strict=True, fin=fin), 15)
            if name in rs.relations:
                fail(f"strict: function with an unsupported statement is analysed in strict mode (fin={fin})",
                     ["strict-analysed"] + ([] if not fin else ["fin"]) + kinds, "absent", "present")
        except vlib.CaseTimeout:
            pass
        except Exception as e:
            fail(f"strict: Analysis.run(strict=True, fin={fin}) raises {type(e).__name__}", ["strict", "raises", type(e).__name__] + kinds, "absent", vlib.exc_sig(e))
    try:
        a4 = deepcopy(ast2)
        g4 = a4.ext[-1]
        bl = blocks(g4)
        # inserted nodes of THIS copy: recompute by position in the copy (same plan, same structure)
        ins4 = [n for n, m in zip(_all_nodes(g4), _all_nodes(g)) if any(m is x for x in ins)]
        loops4 = FindLoops(g4).loops
        keep = [not contains(l, ins4) for l in loops4]
        seen = []
        orig = LoopAnalysis.inspect

        def insp(node):
            seen.append(id(node))
            return orig(node)
        LoopAnalysis.inspect = staticmethod(insp)
        try:
            vlib.with_timeout(lambda: LoopAnalysis.run(a4, strict=True), 15)
        finally:
            LoopAnalysis.inspect = staticmethod(orig)
        bad = [l for l, k in zip(loops4, keep) if not k and id(l) in seen]
        if bad:
            fail("strict(loop): a loop holding an unsupported statement is analysed in strict loop mode", ["strict-loop-analysed"] + kinds,
                 "absent", "present")
    except vlib.CaseTimeout:
        pass
    except Exception as e:
        fail(f"strict(loop): LoopAnalysis.run(strict=True) raises {type(e).__name__}", ["strict-loop", "raises", type(e).__name__] + kinds,
             "no exception", vlib.exc_sig(e))
    # one AST object handed to several calls: a coverage report and a (refusing) strict run come first, then the default run must still
    # drop exactly the inserted statements (its result is the original function's result)
    if not (isinstance(r0["func"], dict) and "exc" in r0["func"]) and r0["func"] != "timeout":
        try:
            a5 = deepcopy(ast2)
            logging_off = Coverage(a5.ext[-1])
            logging_off.report()
            vlib.with_timeout(lambda: Analysis.run(a5, strict=True), 15)
            r5 = vlib.with_timeout(lambda: Analysis.run(a5), 15)
            got = strip_times(r5.relations[name].to_dict()) if name in r5.relations else None
            if got != r0["func"]:
                fail(f"reuse: after Coverage.report() and a strict run on the SAME tree, the default run no longer gives the original result "
                     f"(inserted {kinds})", ["reuse-result-differs"] + kinds, r0["func"], got)
        except vlib.CaseTimeout:
            pass
        except Exception as e:
            fail(f"reuse: report / strict / default run on one tree raises {type(e).__name__}", ["reuse", "raises", type(e).__name__] + kinds,
                 "no exception", vlib.exc_sig(e))
    return fails


def _container(f, target):
    """class of the nearest non-Compound ancestor of target in f"""
    best = ["FuncDef"]

    def go(n, anc):
        if n is target:
            for a in reversed(anc):
                if type(a).__name__ != "Compound":
                    best[0] = type(a).__name__
                    break
            return True
        for _, _, c in D.children(n):
            if go(c, anc + [n]):
                return True
        return False
    go(f, [])
    return best[0]


def _all_nodes(n):
    out = [n]
    for _, _, c in D.children(n):
        out += _all_nodes(c)
    return out


def gen_supported(rng):
    from pymwp import Coverage
    for _ in range(30):
        g = S.Gen(rng, edge=0.0, maxdepth=rng.choice([1, 2, 3]))
        src = g.func(name="f", lo=1, hi=5)
        if rng.random() < 0.35:
            # brace-less `;` positions: an if with an empty branch next to a supported one, an empty loop body
            c1, c2 = g.cond(0), g.cond(0)
            extra = rng.choice([f"if ({c1}) ; else {g.simple()}", f"if ({c1}) {g.simple()} else ;", f"while ({c1}) ;",
                                f"if ({c1}) ; else {{ {g.simple()} {g.simple()} }}", f"while ({c2}) if ({c1}) ; else {g.simple()}",
                                f"for (i = 0; i < n; i++) if ({c1}) {g.simple()} else ;"])
            src = src.rstrip()[:-1] + extra + "\n}\n"
        if rng.random() < 0.15:
            # a labelled block: the gate accepts labels (and does not look below them)
            src = src.rstrip()[:-1] + "LL0: { " + g.simple() + " " + g.simple() + " }\n}\n"
        try:
            ast = S.parse(src)
            if Coverage(deepcopy(ast.ext[-1])).full:
                return src, ast
        except Exception:
            continue
    src = S.header() + "{ x = y + z; while (x > 0) { y = y + 1; } }"
    return src, S.parse(src)


def shrink_case(src, plan, sig):
    """drop insertions, then shrink the host function (positions re-clamped)"""
    def bad(s, p):
        try:
            fs = check_case(s, p)
        except Exception:
            return False
        return bool(fs) and any(f["base"] == sig for f in fs)
    plan = list(plan)
    i = 0
    while i < len(plan) and len(plan) > 1:
        cand = plan[:i] + plan[i + 1:]
        if bad(src, cand):
            plan = cand
        else:
            i += 1

    def pred(s):
        try:
            a = S.parse(s)
            nb = len(blocks(a.ext[-1]))
        except Exception:
            return False
        p2 = []
        for b, pos, text in plan:
            if b >= nb:
                return False
            n = len(blocks(a.ext[-1])[b].block_items or [])
            p2.append((b, min(pos, n), text))
        return bad(s, p2)
    small = S.shrink_source(src, pred, budget=80)
    a = S.parse(small)
    p2 = [(b, min(pos, len(blocks(a.ext[-1])[b].block_items or [])), text) for b, pos, text in plan]
    return small, p2


def corr_syntax_check_file(items):
    def build():
        rows = []
        for tree, strict, exp in items:
            e = "None" if exp is None else f"(Some ({'true' if exp[0] else 'false'}, {D.cq_tree(exp[1])}))"
            rows.append("(" + D.cq_tree(tree) + ", " + ("true" if strict else "false") + ",\n  " + e + ")")
        t = "Definition cases : list (node * bool * option (bool * node)) :=\n [" + ";\n ".join(rows) + "].\n"
        t += ("Definition bn_eqb (a b : bool * node) := Bool.eqb (fst a) (fst b) && node_eqb (snd a) (snd b).\n"
              "Definition m_sc (t : node) (s : bool) := match syntax_check t s with Ok r => Some r | Err _ => None end.\n"
              "Eval vm_compute in bad (fun c => let '(t, s, e) := c in opt_eqb bn_eqb (m_sc t s) e) 0 cases.\n")
        return t
    return S._with_interning(build)


def real_syntax_check(node, strict):
    from pymwp import Analysis
    n = deepcopy(node)
    try:
        v = Analysis.syntax_check(n, strict)
        return (bool(v), D.dump(n))
    except Exception:
        return None


# ---- same-layout twins analysed one after the other in one process ------------------------------------------
TWIN_BODIES = [("{ y = y + x; }", "{ n = y + x; }"), ("{ x = x * y; }", "{ x = x * n; }"), ("y = y + x;", "n = n + x;"),
               ("{ if (x) { y = x; } }", "{ if (x) { y = n; } }")]       # (a guard read only in a CONDITION does not count: conditions are not analysed)
TWIN_HEADERS = [("for (i = 0; i < n; i++)", "for (i = 0; i < n; i++)"),      # same header, only the body differs
                ("for (i = 0; i < n; i++)", "for (i = 0; i < i; i++)"),      # counted / guard is the iterator (not a counted loop)
                ("for (i = n; i > 0; i--)", "for (i = n; i > x; i--)")]


def twin_sources(rng):
    """(A, B, BASE): A has a counted for-loop; B differs from A only INSIDE that loop, which is not a counted loop any more (guard
    used in its body / two guard candidates), every token before the loop keeps its line and column; BASE is B without the loop."""
    pre = rng.choice(["    x = x + y;\n", "    y = x;\n    x = y + y;\n", ""])
    post = rng.choice(["    x = y;\n", "", "    y = y * x;\n"])
    ha, hb = rng.choice(TWIN_HEADERS)
    ba, bb = rng.choice(TWIN_BODIES)
    if ha == hb and ba == bb:
        bb = "{ n = y + x; }"
    if ha != hb:
        bb = ba if rng.random() < 0.5 else bb
    ind = rng.choice(["    ", "  ", "\t"])
    head = "void f(int x, int y, int n, int i)\n{\n" + pre
    A = head + ind + ha + " " + ba + "\n" + post + "}\n"
    B = head + ind + hb + " " + bb + "\n" + post + "}\n"
    BASE = head + "\n" + post + "}\n"
    return A, B, BASE


def check_twins(A, B, BASE, order):
    """analyse A and B in this process in the given order; B must be treated exactly as on its own: rejected by the gate, the loop
    dropped (tree = BASE's tree), same result as BASE, refused in strict mode; A must stay fully supported."""
    from pymwp import Coverage, Analysis
    fails = []
    inp = {"twin": {"A": A, "B": B, "BASE": BASE, "order": order}}

    def fail(what, sig, exp, obs):
        fails.append({"what": what, "sig": ["C07", "twin"] + sig, "base": ["twin"] + sig, "input": inp, "expected": exp, "observed": obs})
    base_ast = S.parse(BASE)
    base_tree = D.dump(base_ast.ext[-1])
    rbase = run_modes(base_ast, "f")

    def do_A():
        a = S.parse(A)
        if not Coverage(deepcopy(a.ext[-1])).full:
            fail("twin: the supported twin is rejected by the gate", ["A-rejected", order], "full", "not full")
        run_modes(a, "f")

    def do_B():
        b = S.parse(B)
        g = deepcopy(b.ext[-1])
        c = Coverage(g)
        if c.full:
            fail("twin: a for-loop that is not a counted loop is accepted by the gate after a look-alike at the same place was analysed",
                 ["B-accepted", order], "not full", "full")
        c.ast_mod()
        if D.dump(g) != base_tree:
            fail("twin: removal pass on the second program does not give the function without the loop", ["B-removal", order], D.to_c(base_ast.ext[-1]), D.to_c(g))
        rb = run_modes(b, "f")
        for key in ("func", "func_fin"):
            if rb[key] != rbase[key] and "timeout" not in (rb[key], rbase[key]):
                fail(f"twin: result({key}) of the second program is not the result of the function without the loop", ["B-result-" + key, order],
                     rbase[key], rb[key])
        for fin in (False, True):
            try:
                rs = Analysis.run(S.parse(B), strict=True, fin=fin)
                if "f" in rs.relations:
                    fail(f"twin: strict mode analyses the second program (fin={fin})", ["B-strict-analysed", order], "absent", "present")
            except Exception as e:
                fail(f"twin: strict run raises {type(e).__name__}", ["B-strict-raises", order], "absent", vlib.exc_sig(e))
    try:
        for step in order:
            (do_A if step == "A" else do_B)()
    except Exception as e:
        fail(f"twin: harness run raises {type(e).__name__}: {e}", ["raises", type(e).__name__], "no exception", vlib.exc_sig(e))
    return fails


def run(ctx):
    vlib.import_pymwp()
    from pymwp import Coverage, FindLoops
    rng = ctx.rng
    failing, mism, seen = [], [], set()
    stats = {"evaluations": 0, "samples": []}
    # the pool really is unsupported: alone in a function it is removed, leaving nothing
    pool_ok = []
    for u in UNSUP + UNSUP_D12 + UNSUP_LOOPY:
        a = S.parse("void t_(void){\n" + u + "\n}")
        c = Coverage(a.ext[0])
        rej = not c.full
        c.ast_mod()
        if rej and not (a.ext[0].body.block_items or []):
            pool_ok.append(u)
        else:
            mism.append(f"harness: pool statement {u!r} is not rejected-and-removed as a whole by the gate")
    dist = {"hosts": 0, "cases": 0, "insertions": 0, "positions_in_nested_blocks": 0, "all_position_sweeps": 0,
            "host_blocks_max": 0, "kinds": {}}
    nhosts = ctx.n(45, 500)
    corpus = vlib.corpus("C07")
    todo = [(c["src"], [tuple(p) for p in c["plan"]]) for c in corpus]
    for h in range(nhosts):
        src, ast = gen_supported(rng)
        f = ast.ext[-1]
        bl = blocks(f)
        dist["hosts"] += 1
        dist["host_blocks_max"] = max(dist["host_blocks_max"], len(bl))
        positions = [(b, p) for b, blk in enumerate(bl) for p in range(len(blk.block_items or []) + 1)]
        plans = []
        if h % 6 == 0:
            # every position, one statement each
            u = rng.choice(UNSUP)
            plans += [[(b, p, u)] for b, p in positions[:25]]
            dist["all_position_sweeps"] += 1
        allpool = UNSUP + UNSUP_D12 + UNSUP_LOOPY
        plans.append([(*rng.choice(positions), allpool[h % len(allpool)])])      # every pool form is used at least once
        for _ in range(2):
            k = rng.choice([1, 1, 2, 3])
            pool = UNSUP if rng.random() < 0.85 else (UNSUP_D12 if rng.random() < 0.5 else UNSUP_LOOPY)
            plans.append([(*rng.choice(positions), rng.choice(pool)) for _ in range(k)])
        nsl = len(slots(f))
        for k in range(min(nsl, 3)):
            # the brace-less positions: `;` as a branch / loop body replaced by an unsupported statement (expected back: `;`)
            pool = UNSUP if rng.random() < 0.6 else UNSUP_LOOPY
            plans.append([(-1, k, rng.choice(pool))])
            dist["slot_insertions"] = dist.get("slot_insertions", 0) + 1
        plans.append([])
        for plan in plans:
            todo.append((src, plan))
    for src, plan in todo:
        try:
            fs = check_case(src, plan)
        except Exception as e:
            mism.append(f"harness error on {src!r} {plan!r}: {type(e).__name__}: {e}")
            continue
        if fs is None:
            continue
        dist["cases"] += 1
        dist["insertions"] += len(plan)
        dist["positions_in_nested_blocks"] += sum(1 for b, _, _ in plan if b > 0)
        for _, _, u in plan:
            k = u.split()[0][:12]
            dist["kinds"][k] = dist["kinds"].get(k, 0) + 1
        stats["evaluations"] += 1
        if len(stats["samples"]) < 2 and len(plan) >= 2:
            stats["samples"].append({"src": src, "plan": plan})
        for f in fs:
            key = tuple(f["sig"])
            if key in seen:
                continue
            seen.add(key)
            try:
                s2, p2 = shrink_case(src, plan, f["base"])
                fs2 = check_case(s2, p2) or []
                g = next((x for x in fs2 if x["base"] == f["base"]), f)
            except Exception:
                g = f
            if tuple(g["sig"]) != key and tuple(g["sig"]) in seen:
                continue
            seen.add(tuple(g["sig"]))
            g["shrunk_from"] = {"src": src, "plan": [list(p) for p in plan]}
            failing.append(g)
    # same-layout twins, both orders, in this process
    ntw = 0
    for _ in range(ctx.n(24, 200)):
        A, B, BASE = twin_sources(rng)
        for order in ("AB", "BA", "ABAB"):
            ntw += 1
            try:
                fs = check_twins(A, B, BASE, order)
            except Exception as e:
                mism.append(f"harness error on twins {A!r} {B!r}: {type(e).__name__}: {e}")
                continue
            for f in fs:
                key = tuple(f["sig"])
                if key not in seen:
                    seen.add(key)
                    failing.append(f)
    dist["twin_histories"] = ntw
    stats["evaluations"] += ntw
    stats["distribution"] = dist
    nontriv = sum(1 for s, p in todo if p)
    # ---- correspondence ----------------------------------------------------------------------
    ncorr = 0
    if ctx.coq_ok:
        items = []
        for k in range(ctx.n(240, 2000)):
            if k % 4 == 0:
                src, ast = gen_supported(rng)
                f = ast.ext[-1]
                bl = blocks(f)
                positions = [(b, p) for b, blk in enumerate(bl) for p in range(len(blk.block_items or []) + 1)]
                f, _ = insert(f, [(*rng.choice(positions), rng.choice(UNSUP + UNSUP_D12 + UNSUP_LOOPY)) for _ in range(rng.choice([1, 2, 3]))])
                src = D.to_c(f)
            else:
                src, ast = S.gen_parsed(rng, edge=rng.choice([0.1, 0.3, 0.5, 0.7]))
                f = ast.ext[-1]
            items.append((D.dump(f), S.observe_walkers(f), src))
        bad, errs = S.run_sharded("c07_w", [(t, o) for t, o, _ in items], S.walker_file, 5, per=120)
        mism += errs
        for nm, b in zip(("coverage omit paths", "tree after ast_mod", "vars", "find_loops", "wf_pyc"), bad):
            if nm in ("coverage omit paths", "tree after ast_mod", "wf_pyc") and b:
                mism.append(f"walkers/{nm}: model differs from the real code on {len(b)} of {len(items)} functions, e.g. {items[b[0]][2]!r}")
        ncorr += len(items)
        stats["corr_functions_not_full"] = sum(1 for _, o, _ in items if o["full"] is False)
        stats["corr_functions_raise"] = sum(1 for _, o, _ in items if o["exc"])
        # syntax_check on function and loop roots
        sitems = []
        for k in range(ctx.n(200, 1500)):
            src, ast = S.gen_parsed(rng, edge=rng.choice([0.0, 0.2, 0.4, 0.6]))
            f = ast.ext[-1]
            strict = rng.random() < 0.5
            node = f
            if k % 2:
                try:
                    ls = FindLoops(deepcopy(f)).loops
                except Exception:
                    ls = []
                if ls:
                    node = rng.choice(ls)
            sitems.append((D.dump(node), strict, real_syntax_check(node, strict), src))
        bad, errs = S.run_sharded("c07_s", [(t, s, e) for t, s, e, _ in sitems], corr_syntax_check_file, 1, per=100)
        mism += errs
        if bad[0]:
            i = bad[0][0]
            mism.append(f"syntax_check: model differs on {len(bad[0])} of {len(sitems)} nodes, e.g. root {sitems[i][0][0]} of {sitems[i][3]!r} strict={sitems[i][1]}")
        ncorr += len(sitems)
        # dumper round trips
        rt_same, rt_text, rt_n = 0, 0, 0
        for t, o, src in items[:200]:
            rt_n += 1
            try:
                n = D.to_node(t)
                txt = D.to_c(n)
                if D.dump(n) == t:
                    rt_text += 1
                back = S.parse(txt).ext[-1]
                if D.dump(back) == t:
                    rt_same += 1
            except Exception:
                pass
        stats["dump_roundtrip"] = {"trees": rt_n, "dump(to_node(t)) == t": rt_text, "dump(parse(to_c(to_node(t)))) == t": rt_same}
        if rt_text != rt_n:
            mism.append(f"pyc_dump: dump(to_node(t)) != t on {rt_n - rt_text} of {rt_n} trees")
        if rt_same < 0.9 * rt_n:
            mism.append(f"pyc_dump: only {rt_same} of {rt_n} trees survive tree -> C -> pycparser -> tree")
    else:
        mism.append("model not built: correspondence not run")
    stats["evaluations"] += ncorr
    stats["correspondence_cases"] = ncorr
    stats["distinct_nontrivial"] = nontriv
    stats["rule"] = ("metamorphic: gate-accepted random hosts (<= 5 top-level statements, nesting <= 3) x 1-3 insertions from a pool of "
                     f"{len(pool_ok)} whole-statement-rejected forms over fresh identifiers, random block positions + every position for every "
                     "sixth host; each case runs Coverage/ast_mod, Analysis.run (fin on/off), LoopAnalysis.run, both strict runs. "
                     "non-trivial = cases with at least one insertion")
    return {"failing": failing, "corr_mismatch": mism, "stats": stats}


def replay(ctx, data):
    vlib.import_pymwp()
    inp = data.get("input", data)
    if "twin" in inp:
        t = inp["twin"]
        fs = check_twins(t["A"], t["B"], t["BASE"], t["order"])
    else:
        fs = check_case(inp["src"], [tuple(p) for p in inp["plan"]]) or []
    want = data.get("sig")
    for f in fs:
        if want is None or f["sig"] == want:
            return f
    return fs[0] if fs else None
