"""C01: every reported bound is a derivation of the mwp flow calculus.
search = real Analysis.run against the independent calculus oracle (tools/calc.py) on all 3^k vectors;
correspondence = Coq model Analysis.v against the real result (index, variables, matrix of polynomials,
set of valid vectors) and Calculus.v against tools/calc.py."""
import itertools
import vlib
import e2e
import calc
import streams
import unitcorr

ID = "C01"
LEVEL = "proof"
MODEL_TARGETS = ["theories/Analysis.vo", "theories/Calculus.vo"]
TRANSLATORS = ["semiring", "rules"]
LEVEL_TEXT = ("Machine-checked theorem (coq/props/C01.v, closed under the global context): for EVERY function of the typed fragment that the executable "
              "Coq model of Analysis.func reports as not infinite -- any nesting depth, any number of variables and sites, both early-stop settings -- "
              "the reported degree is the number k of binary-operation sites, the choice object accepts exactly the vectors of 3^k at which the mwp "
              "calculus (Calculus.v, rule table and side conditions regenerated from analysis.py/relation.py on every run) has a derivation, and the matrix "
              "obtained by applying such a vector to the reported relation IS the derived matrix (nothing missing, nothing extra); bound = columns of "
              "that matrix (C01_bound_reads_derived_columns). The model is tied to the code on every run by structural comparison of degree, variables, "
              "polynomial matrix and valid-vector set on generated programs, by unit-level streams (Polynomial.equal, Relation.fixpoint on chain bodies), "
              "by a cross-check of the reader against the real dispatch, and the real tool is compared with an independent calculus oracle on all 3^k vectors.")
LEVEL_NOTE = ("Trusted: Coq kernel; translators rules/semiring; the reader tools/cread.py (pycparser AST -> typed statements, dispatch conditions only); "
              "generators. The Choices object is compared semantically (accepted vectors), its internal box representation is property C04's.")
TECHNIQUE = "Coq proof over an executable model + rule-table translator + differential correspondence (vm_compute) + exhaustive-vector calculus oracle"
EXPLANATION = "see LEVEL_TEXT"
ASSUMPTIONS = ["functions inside the typed fragment read by tools/cread.py (others are covered by the syntax properties)",
               "k <= 7 sites for exhaustive vector enumeration"]

MODES = [(False, False), (True, False), (False, True), (True, True)]


def run(ctx):
    vlib.import_pymwp()
    n = ctx.n(140, 1500)
    progs = streams.programs(ctx, n, max_sites=ctx.n(5, 6))
    progs += (streams.focused(ctx, ctx.n(60, 500), "pair-cycle") + streams.focused(ctx, ctx.n(20, 200), "branch-accumulate") +
              streams.focused(ctx, ctx.n(20, 200), "for-accumulate"))
    failing, mism = [], []
    recs, coq_cases, calc_cases = [], [], []
    outcome = {}
    seen = set()
    nexc = 0
    for label, src in progs:
        per_mode = {}
        for fin, strict in MODES:
            r = e2e.run_real(src, fin, strict)
            if r["exc"]:
                nexc += 1
                if r["exc"][0] not in ("ParseError", "Timeout"):      # the 30 s limit is a harness safety net; termination is property C06
                    failing.append({"what": f"raise: Analysis.run raised {r['exc']}", "sig": ["C01", "raise", r["exc"][0], r["exc"][1]],
                                    "input": {"src": src, "opts": {"fin": fin, "strict": strict}}, "expected": "a result", "observed": r["exc"]})
                continue
            d = r["funcs"].get("f")
            if d is None:
                continue      # strict mode refused the function
            per_mode[(fin, strict)] = d
            if d["typed"] is None:
                outcome["outside"] = outcome.get("outside", 0) + 1
                continue
            rm = e2e.reader_mismatch(d)
            if rm:
                mism.append(f"reader tools/cread.py vs real dispatch: {rm} on\n{src}")
            res = e2e.calculus_check(d, "C01", failing, src, {"fin": fin, "strict": strict})
            outcome[res] = outcome.get(res, 0) + 1
            recs.append(d)
            if d["index"] <= 5 and not (fin and strict):
                coq_cases.append((f"{label} fin={fin} strict={strict}\n{src}", d, not fin))
            key = (src)
            if key not in seen and d["index"] <= 6:
                seen.add(key)
                f = d["typed"]
                k = calc.count_sites(f)
                vecs = [list(c) for c in itertools.product((0, 1, 2), repeat=k)]
                ctx.rng.shuffle(vecs)
                calc_cases.append((src, f, k, [(v, calc.derive(f, v)[0]) for v in vecs[:10]]))
    # files with several functions: every function is analysed as if it were alone (choice indices restart at 0, nothing learnt
    # about one function may leak into the next)
    import gen_prog
    nfiles = 0
    for i in range(ctx.n(30, 300)):
        parts = []
        for fname in ("f", "g", "h")[: ctx.rng.choice([2, 2, 3])]:
            parts.append(gen_prog.gen_function(ctx.rng, streams.cfg_for(ctx.rng, 4), fname=fname)[0])
        src = "\n".join(parts)
        nfiles += 1
        for fin, strict in MODES[:2] if i % 2 else MODES[2:]:
            r = e2e.run_real(src, fin, strict)
            if r["exc"]:
                if r["exc"][0] not in ("ParseError", "Timeout"):      # the 30 s limit is a harness safety net; termination is property C06
                    failing.append({"what": f"raise: Analysis.run raised {r['exc']}", "sig": ["C01", "raise", r["exc"][0], r["exc"][1]],
                                    "input": {"src": src, "opts": {"fin": fin, "strict": strict}}, "expected": "a result", "observed": r["exc"]})
                continue
            for fname, d in r["funcs"].items():
                if d is None or d["typed"] is None:
                    continue
                res = e2e.calculus_check(d, "C01", failing, src, {"fin": fin, "strict": strict, "func": fname}, what_prefix=f"[function {fname} of a {len(parts)}-function file] ")
                outcome["file:" + res] = outcome.get("file:" + res, 0) + 1
                recs.append(d)
    # small scope, exhaustively (thorough) / a seeded sample of it (quick)
    ssf, ssinfo = streams.small_scope_check(ctx, "C01", 1200)
    failing += ssf
    if ctx.coq_ok:
        mism += e2e.coq_compare("c01", coq_cases)
        mism += e2e.coq_calculus_compare("c01", calc_cases)
        m1, n_aux = unitcorr.poly_aux(ctx, ctx.n(200, 2000))
        m2, n_chain = unitcorr.rel_chain_fix(ctx, ctx.n(60, 600), failing, "C01")
        unitcorr.choice_scalar_check(ctx, ctx.n(300, 3000), failing, "C01")
        mism += m1 + m2
    else:
        mism.append("model not built: analysis correspondence not run")
    dist = streams.distribution(recs)
    if recs and (dist["share_infinite"] > 0.9 or not any(streams.nontrivial(d) for d in recs)):
        mism.append("generator degenerate: " + str(dist))
    distinct = len({d["typed"].__repr__() for d in recs if streams.nontrivial(d)})
    stats = {"evaluations": len(recs) + 2 * ssinfo["programs"], "distinct_nontrivial": distinct,
             "rule": "generated C functions (assignments, +,-,*, unary/cast sugar, if/else, while, do-while, counted for, nested; biased sub-streams: "
                     "overwrite-then-loop, two loops, loops in both branches, chain/rotation loops, tight cycles, for-accumulate, branch-accumulate, pair-cycle; "
                     "focused sub-streams of the last three; files of 2-3 functions; the exhaustive small scope of streams.small_scope_all: complete in the "
                     "thorough tier, a seeded sample otherwise) x {fin} x {strict}; every result compared with the calculus on all 3^k "
                     "vectors; non-trivial = distinct typed function with >=1 site and a loop or branch",
             "samples": [progs[len(streams.CORPUS)][1] if len(progs) > len(streams.CORPUS) else progs[0][1], streams.CORPUS[5][1]],
             "outcomes": outcome, "distribution": dist, "coq_model_cases": len(coq_cases), "coq_calculus_cases": len(calc_cases),
             "exceptions": nexc, "programs": len(progs), "multi_function_files": nfiles, "small_scope": ssinfo}
    return {"failing": failing, "corr_mismatch": mism, "stats": stats}


def replay(ctx, data):
    vlib.import_pymwp()
    inp = data.get("input", data)
    o = inp.get("opts", {})
    failing = []
    if "src" not in inp:
        return unitcorr.replay_unit(inp, "C01")
    r = e2e.run_real(inp["src"], o.get("fin", False), o.get("strict", False))
    if r["exc"]:
        return {"what": f"raise: {r['exc']}", "sig": ["C01", "raise", r["exc"][0], r["exc"][1]], "input": inp}
    for fname, d in r["funcs"].items():
        if d is None or d["typed"] is None:
            continue
        e2e.calculus_check(d, "C01", failing, inp["src"], o)
    return failing[0] if failing else None
