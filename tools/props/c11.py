"""C11: the delta graph never declares failure while a valid choice remains; insert/fuse never raise.

search         : REAL pymwp DeltaGraph against a brute-force oracle written here.  After every operation
                 of a history: (i) no exception; (ii) if dg.is_empty then every one of the degree^k choice
                 vectors over the indices involved matches an inserted tuple.  Histories: exhaustive over
                 nodes on <= 2 indices and length <= 4 (quick: a seeded subset), random over <= 5 indices
                 and length <= 40 (clique-rich generator), each followed by "fuse, fuse" so that fusing
                 after a collapse is always exercised, plus histories recorded from real Analysis.run on
                 C programs with failing loops (methods wrapped from this process, no source hook).
                 Directed completion: if at the end of a history a node is present that is not covered by
                 the inserted tuples, the history is extended by the siblings that make it collapse, which
                 turns a latent unsoundness into a real unsound collapse.  Failing histories are shrunk.
correspondence : whole-state comparison after every operation (graph_dict in insertion order with edges
                 and labels, is_empty, recorded, exception class) between the Coq model
                 PM.DeltaGraph (vm_compute, comparison computed inside Coq) and the real code, on the
                 same histories + an edge stream (direct remove_node / insert_edge calls, unsorted
                 tuples, out-of-domain values, degrees 0..4) + node_diff on random pairs.
"""
import itertools
import json
import os
import time

import vlib

ID = "C11"
LEVEL = "proof"
TRANSLATORS = []
MODEL_TARGETS = ["theories/DeltaGraph.vo"]
EXPLANATION = (
    "C11_sound and C11_no_raise are proved in Coq for every finite insert/fuse history over well-formed delta "
    "tuples (sorted by index, values < degree, any degree > 0) about a hand-written executable model of "
    "delta_graphs.py (association lists in CPython dict order, KeyError = explicit Err, remove_node on fuel = "
    "node count).  The model is compared with the real DeltaGraph state after every operation on generated and "
    "recorded histories; the real code is searched by brute force for an unsound collapse or an exception.")
ASSUMPTIONS = [
    "the hand-written model PM.DeltaGraph computes what pymwp/delta_graphs.py computes (checked on every run by "
    "whole-state comparison after every operation; not proved)",
    "CPython dict insertion order / tuple equality semantics as modelled",
    "domain: delta tuples as built by Monomial (sorted by index, one delta per index) with values < degree; "
    "outside that domain the collapse test is NOT sound (witnesses in stats.out_of_domain)",
]
LEVEL_TEXT = ("Machine-checked proof over unbounded insert/fuse histories (invariant: every node ever present is covered "
              "by the inserted tuples; edges join tuples that differ at exactly the label; symmetric among present nodes) "
              "of a model tied to the code by differential whole-state comparison; brute-force search on the real code.")
LEVEL_NOTE = "Trusted: Coq kernel, the hand-written model (validated against the real class on every run). No axioms."
TECHNIQUE = "Coq invariant proof over histories + differential state comparison (vm_compute) + brute-force oracle search"

# ---------------------------------------------------------------------------
# histories: op = ["I", node] | ["F"] | ["M", node] | ["R", node, idx] | ["E", n1, n2, label]
# node = list of [value, index]
# ---------------------------------------------------------------------------


def tnode(n):
    return tuple((int(v), int(i)) for v, i in n)


def get_classes(patch=None):
    vlib.import_pymwp()
    from pymwp.delta_graphs import DeltaGraph
    from pymwp.monomial import Monomial
    return DeltaGraph, Monomial


def snapshot(dg):
    g = [[size, [[[list(d) for d in n], [[[list(d) for d in m], lab] for m, lab in nb.items()]]
                 for n, nb in bk.items()]] for size, bk in dg.graph_dict.items()]
    rec = sorted([list(d) for d in n] for n in getattr(dg, "recorded", set()))
    return {"g": g, "empty": bool(dg.is_empty), "rec": rec}


def apply_op(dg, Mono, op):
    k = op[0]
    if k == "I":
        dg.insert_node(tnode(op[1]))
    elif k == "F":
        dg.fusion()
    elif k == "M":
        m = Mono("i")
        m.deltas = [tuple(d) for d in tnode(op[1])]
        dg.from_monomial(m)
    elif k == "R":
        dg.remove_node(tnode(op[1]), op[2])
    elif k == "E":
        dg.insert_edge(tnode(op[1]), tnode(op[2]), op[3])
    else:
        raise ValueError(k)


def run_real(DG, Mono, degree, hist, snap=True):
    """Observable after every operation; stops at the first exception."""
    dg = DG(degree=degree)
    out = []
    for op in hist:
        try:
            apply_op(dg, Mono, op)
        except Exception as e:  # the exception is part of the observable
            out.append({"raise": vlib.exc_sig(e)})
            break
        out.append(snapshot(dg) if snap else {"empty": bool(dg.is_empty)})
    return out, dg


# ---------------------------------------------------------------------------
# oracle
# ---------------------------------------------------------------------------

def matches(n, c):
    return all(c.get(i) == v for v, i in n)


def uncovered_vector(ins, degree, extra_idx=()):
    """A choice vector over the indices involved that matches no inserted tuple (None if all are covered)."""
    idx = sorted({i for n in ins for _, i in n} | set(extra_idx))
    if any(len(n) == 0 for n in ins):
        return None
    for vals in itertools.product(range(degree), repeat=len(idx)):
        c = dict(zip(idx, vals))
        if not any(matches(n, c) for n in ins):
            return c
    return None


def wf_node(n, degree):
    return all(n[k][1] < n[k + 1][1] for k in range(len(n) - 1)) and all(0 <= v < degree for v, _ in n)


def oracle(DG, Mono, degree, hist):
    """Run the history on the real class.  Returns None or a failure dict (kind, at, detail)."""
    dg = DG(degree=degree)
    ins = []
    for k, op in enumerate(hist):
        if op[0] in ("I", "M"):
            ins.append(tnode(op[1]))
        try:
            apply_op(dg, Mono, op)
            empty = dg.is_empty
        except Exception as e:
            return {"kind": "raise", "at": k, "exc": vlib.exc_sig(e)}
        if empty:
            c = uncovered_vector(ins, degree)
            if c is not None:
                return {"kind": "unsound", "at": k, "vector": sorted(c.items())}
    return None


def completion(DG, Mono, degree, hist):
    """If a node present at the end is matched by a choice vector that no inserted tuple matches,
    return the extension (siblings + fusions) that should collapse the graph while that vector stays uncovered."""
    dg = DG(degree=degree)
    ins = []
    try:
        for op in hist:
            if op[0] in ("I", "M"):
                ins.append(tnode(op[1]))
            apply_op(dg, Mono, op)
    except Exception:
        return None
    for size in sorted(dg.graph_dict, reverse=True):
        for n in dg.graph_dict[size]:
            if not wf_node(n, degree):
                continue
            idx = sorted({i for m in ins for _, i in m} | {i for _, i in n})
            fixed = dict((i, v) for v, i in n)
            free = [i for i in idx if i not in fixed]
            for vals in itertools.product(range(degree), repeat=len(free)):
                c = dict(fixed)
                c.update(zip(free, vals))
                if not any(matches(m, c) for m in ins):
                    ext = []
                    cur = list(n)
                    while cur:
                        v, i = cur[-1]
                        for w in range(degree):
                            if w != v:
                                ext.append(["I", [list(d) for d in cur[:-1]] + [[w, i]]])
                        ext.append(["F"])
                        cur = cur[:-1]
                    return ext
    return None


def shrink(pred, hist):
    """Greedy deletion of operations while pred(hist) stays true."""
    h = list(hist)
    changed = True
    while changed:
        changed = False
        for k in range(len(h) - 1, -1, -1):
            h2 = h[:k] + h[k + 1:]
            if pred(h2):
                h = h2
                changed = True
    # shrink tuples: drop deltas
    for k in range(len(h)):
        if h[k][0] in ("I", "M"):
            n = h[k][1]
            j = 0
            while j < len(h[k][1]):
                n2 = h[k][1][:j] + h[k][1][j + 1:]
                h2 = h[:k] + [[h[k][0], n2]] + h[k + 1:]
                if pred(h2):
                    h = h2
                else:
                    j += 1
    return h


# ---------------------------------------------------------------------------
# generators
# ---------------------------------------------------------------------------

def small_nodes(indices, degree):
    out = [[]]
    for r in range(1, len(indices) + 1):
        for sub in itertools.combinations(indices, r):
            for vals in itertools.product(range(degree), repeat=r):
                out.append([[v, i] for v, i in zip(vals, sub)])
    return out


def exhaustive_histories(maxlen, degree=3, indices=(0, 1)):
    ops = [["I", n] for n in small_nodes(indices, degree)] + [["F"]]
    for L in range(1, maxlen + 1):
        for h in itertools.product(ops, repeat=L):
            yield list(h)


def rand_node(rng, nidx, degree, maxlen=None):
    k = rng.randint(1, nidx if maxlen is None else min(nidx, maxlen))
    if rng.random() < 0.02:
        k = 0
    sub = sorted(rng.sample(range(nidx), k))
    return [[rng.randrange(degree), i] for i in sub]


def random_history(rng, nidx, degree, length):
    """Clique-rich: blocks of siblings differing at one index, sub-cubes, plain random tuples, fusions."""
    h = []
    while len(h) < length:
        r = rng.random()
        if r < 0.22:
            h.append(["F"])
        elif r < 0.50:
            base = rand_node(rng, nidx, degree)
            if base:
                j = rng.randrange(len(base))
                vals = list(range(degree))
                rng.shuffle(vals)
                if rng.random() < 0.25:
                    vals = vals[:-1]
                for v in vals:
                    n = [list(d) for d in base]
                    n[j][0] = v
                    h.append(["I", n] if rng.random() < 0.8 else ["M", n])
            else:
                h.append(["I", []] if rng.random() < 0.3 else ["I", rand_node(rng, nidx, degree)])
        elif r < 0.62:
            # a whole sub-cube over two indices below a common prefix
            base = rand_node(rng, nidx, degree)
            if len(base) >= 2:
                a, b = sorted(rng.sample(range(len(base)), 2))
                cube = list(itertools.product(range(degree), repeat=2))
                rng.shuffle(cube)
                for va, vb in cube[:rng.randint(degree * degree - 2, degree * degree)]:
                    n = [list(d) for d in base]
                    n[a][0], n[b][0] = va, vb
                    h.append(["I", n])
            else:
                h.append(["I", base])
        elif r < 0.70 and h:
            h.append(rng.choice([o for o in h if o[0] != "F"] or [["F"]]))   # re-insert something seen
        else:
            h.append(["I", rand_node(rng, nidx, degree)])
    return h[:length]


def edge_history(rng):
    """Malformed / edge stream for correspondence only: direct method calls, unsorted tuples, values >= degree."""
    degree = rng.choice([0, 1, 2, 3, 3, 4])
    nidx = rng.randint(1, 3)
    h = []
    pool = []
    for _ in range(rng.randint(1, 12)):
        r = rng.random()
        n = rand_node(rng, nidx, max(degree, 1) + rng.choice([0, 0, 1, 2]))
        if rng.random() < 0.15:
            rng.shuffle(n)
        if rng.random() < 0.1 and n:
            n.append(list(rng.choice(n)))
        pool.append(n)
        if r < 0.45:
            h.append(["I", n])
        elif r < 0.55:
            h.append(["M", n])
        elif r < 0.72:
            h.append(["F"])
        elif r < 0.87:
            h.append(["R", rng.choice(pool), rng.randrange(nidx + 1)])
        else:
            h.append(["E", rng.choice(pool), rng.choice(pool), rng.randrange(nidx + 1)])
    return degree, h


PROGRAMS = [
    "int f(int x,int y,int z){ while(z>0){x=x+y; y=x+x;} while(z>0){x=x+y;y=x+x;} }",
    "int f(int x,int y,int z){ while(z>0){x=x+y; y=x+x;} }",
    "int f(int x,int y){ while(x>0){ y=y*y; } x = x + y; while(y>0){ x = x*x; } }",
    "int f(int a,int b,int c,int d){ while(a>0){ b=b+c; c=b+b; d=c+a; } if(a>0){ d=d+b; } else { d=d*b; } while(d>0){ a=a*b; } }",
    "int f(int x,int y,int z,int n){ for(n=0;n<z;n++){ x=x+y; y=y+x; } while(z>0){ x=y+y; y=x*x; } }",
    "int f(int x,int y,int z){ if(x>0){ while(z>0){ x=x+y; y=x+x; } } else { y = x + z; } while(z>0){ y=y+y; } }",
    "int f(int x,int y){ while(x>0){ x=x+y; } } int g(int a,int b){ while(a>0){ a=b*b; b=a+a; } while(b>0){ a=a+b; b=b+a; } while(a>0){ b=b*b; } }",
    "int f(int x1,int x2,int x3){ while(x1>0){ x2=x1+x2; x3=x2+x3; x1=x3+x1; } while(x1>0){ x1=x2+x3; } }",
]


# ---------------------------------------------------------------------------
# use site: one graph per analysed unit.  In loop mode every loop is analysed in isolation (delta indices restart
# at 0), so the verdict of a loop must not depend on tuples inserted for a sibling loop: a loop declared failing
# in company but not alone is a collapse reported while a valid choice remains for the unit being analysed.
# ---------------------------------------------------------------------------

LOOP_POOL = [
    "while (n > 0) { x = x * x; }", "while (n > 0) { y = z; }", "while (n > 0) { x = x + y; }",
    "while (n > 0) { y = y + y; }", "while (n > 0) { x = y + z; y = x + x; }", "while (n > 0) { z = z * y; }",
    "while (n > 0) { if (z > 0) { x = x + y; } else { y = x + x; } }", "while (n > 0) { y = x * z; z = y + y; }",
    "for (n = 0; n < z; n++) { x = x + y; }", "do { x = y + y; y = x + z; } while (n > 0);",
    "while (n > 0) { while (z > 0) { x = x + y; } y = y + x; }", "while (n > 0) { x = z; z = y; }",
]


def loop_summaries(loops):
    import pycparser
    from pymwp import LoopAnalysis
    src = "void f(int x, int y, int z, int n) { %s }" % " ".join(loops)
    res = vlib.with_timeout(lambda: LoopAnalysis.run(pycparser.CParser().parse(src), strict=False), 30)
    return src, [(lp.n_vars, lp.n_bounded, sorted((k, str(v.bound)) for k, v in lp.variables.items()))
                 for lp in res.get_func("f").loops]


def loop_isolation(ctx, seqs=None):
    rng, failing, n = ctx.rng, [], 0
    alone = {}
    for code in LOOP_POOL:
        try:
            alone[code] = loop_summaries([code])[1]
        except Exception as e:
            failing.append({"what": f"raise: LoopAnalysis.run raised {vlib.exc_sig(e)[0]}", "sig": ["C11", "loop-mode-raise"],
                            "input": {"loops": [code]}, "expected": "no exception", "observed": vlib.exc_sig(e)})
    if seqs is None:
        seqs = [list(p) for p in itertools.permutations(LOOP_POOL[:6], 2)]
        seqs += [[rng.choice(LOOP_POOL) for _ in range(rng.randint(2, 4))] for _ in range(ctx.n(60, 600))]
    for seq in seqs:
        if any(c not in alone for c in seq):
            continue
        n += 1
        try:
            src, got = loop_summaries(seq)
        except Exception as e:
            failing.append({"what": f"raise: LoopAnalysis.run raised {vlib.exc_sig(e)[0]}", "sig": ["C11", "loop-mode-raise"],
                            "input": {"loops": seq}, "expected": "no exception", "observed": vlib.exc_sig(e)})
            continue
        exp = [x for c in seq for x in alone[c]]
        if got != exp:
            k = next((i for i, (a, b) in enumerate(zip(got, exp)) if a != b), None)
            failing.append({"what": "loop-verdict-depends-on-siblings: in loop mode a loop's result differs from the result of the same "
                                    f"loop analysed alone (loop {k} of {len(seq)})", "sig": ["C11", "loop-verdict-depends-on-siblings"],
                            "input": {"loops": seq, "program": src}, "expected": exp, "observed": got})
            if len(failing) >= 3:
                break
    return failing, n


def recorded_histories(DG, Mono):
    """Histories (one per DeltaGraph instance) produced by real analyses; methods wrapped from here."""
    import pycparser
    from pymwp import Analysis, Result
    hists, cur, depth = [], [], [0]
    o_init, o_ins, o_fus, o_mono = DG.__init__, DG.insert_node, DG.fusion, DG.from_monomial

    def w_init(self, *a, **k):
        self._c11 = []
        hists.append((k.get("degree", 3), self._c11))
        depth[0] += 1
        try:
            return o_init(self, *a, **k)
        finally:
            depth[0] -= 1

    def wrap(orig, tag):
        def f(self, *a, **k):
            top = depth[0] == 0
            if top and hasattr(self, "_c11"):
                if tag == "F":
                    self._c11.append(["F"])
                elif tag == "M":
                    self._c11.append(["M", [list(d) for d in a[0].deltas]])
                else:
                    self._c11.append(["I", [list(d) for d in a[0]]])
            depth[0] += 1
            try:
                return orig(self, *a, **k)
            finally:
                depth[0] -= 1
        return f

    errors = []
    DG.__init__, DG.insert_node, DG.fusion, DG.from_monomial = w_init, wrap(o_ins, "I"), wrap(o_fus, "F"), wrap(o_mono, "M")
    try:
        for src in PROGRAMS:
            try:
                ast = pycparser.CParser().parse(src)
                vlib.with_timeout(Analysis.run, 20, ast, res=Result(), fin=True, strict=False)
            except Exception as e:  # recorded prefix is still a history; the raise is reported by the replay
                errors.append([src, vlib.exc_sig(e)])
    finally:
        DG.__init__, DG.insert_node, DG.fusion, DG.from_monomial = o_init, o_ins, o_fus, o_mono
    return [(d, list(h)) for d, h in hists if h], errors


# ---------------------------------------------------------------------------
# Coq literals
# ---------------------------------------------------------------------------

def cq_node(n):
    return "[" + ";".join(f"({int(v)},{int(i)})" for v, i in n) + "]"


def cq_op(op):
    k = op[0]
    if k == "I":
        return f"CInsert {cq_node(op[1])}"
    if k == "F":
        return "CFuse"
    if k == "M":
        return f"CFromMono {cq_node(op[1])}"
    if k == "R":
        return f"CRemoveNode {cq_node(op[1])} {op[2]}"
    return f"CInsertEdge {cq_node(op[1])} {cq_node(op[2])} {op[3]}"


def cq_obs(o):
    if o == "same":
        return "OSame"
    if "raise" in o:
        return f"ORaise {vlib.cq_str(o['raise'][0])}"
    g = "[" + ";".join(
        f"({size},[" + ";".join(
            f"({cq_node(n)},[" + ";".join(f"({cq_node(m)},{lab})" for m, lab in nb) + "])" for n, nb in bk) + "])"
        for size, bk in o["g"]) + "]"
    rec = "[" + ";".join(cq_node(n) for n in o["rec"]) + "]"
    return f"OState {g} {vlib.cq_bool(o['empty'])} {rec}"


def representable(obs):
    """Labels must be naturals (a None label cannot be written as a Coq literal)."""
    for o in obs:
        if "g" in o:
            for _, bk in o["g"]:
                for _, nb in bk:
                    for _, lab in nb:
                        if not isinstance(lab, int) or lab < 0:
                            return False
    return True


HEADER = ("From Coq Require Import String List.\nFrom PM Require Import DeltaGraph.\nImport ListNotations.\n"
          "Open Scope string_scope.\nOpen Scope list_scope.\n")


def case_text(degree, hist, obs):
    prev, obs2 = {"g": [], "empty": False, "rec": []}, []
    for o in obs:           # an unchanged object is written OSame (compared with the model's previous state)
        obs2.append("same" if o == prev else o)
        prev = o
    obs = obs2
    steps = "[" + ";\n   ".join(f"({cq_op(op)}, {cq_obs(o)})" for op, o in zip(hist, obs)) + "]"
    return f"({degree}, {steps})"


def cases_file(texts):
    return (HEADER + "Definition cases : list (nat * list (cop * obs)) :=\n [" + ";\n  ".join(texts) + "].\n"
            "Eval vm_compute in cbad 0 cases.\n")


def nd_file(cases):
    items = []
    for n1, n2, ix, ed, ei in cases:
        items.append(f"({cq_node(n1)},{cq_node(n2)},{vlib.cq_opt(ix, str)},{vlib.cq_bool(ed)},{vlib.cq_opt(ei, str)})")
    return (HEADER + "Definition cases : list nd_case :=\n [" + ";\n  ".join(items) + "].\n"
            "Eval vm_compute in nd_bad 0 cases.\n")


def parse_pairs(s):
    import re
    return [(int(a), int(b)) for a, b in re.findall(r"\((\d+)\s*,\s*(\d+)\)", s)]


# ---------------------------------------------------------------------------
# run
# ---------------------------------------------------------------------------

def _search_one(args):
    degree, hist = args
    DG, Mono = _search_one.cls
    f = oracle(DG, Mono, degree, hist)
    ext = None
    if f is None:
        ext = completion(DG, Mono, degree, hist)
        if ext is not None:
            f = oracle(DG, Mono, degree, hist + ext)
            if f is None:
                ext = None
    if f is None:
        # distribution flags
        out, _ = run_real(DG, Mono, degree, hist, snap=False)
        col = [k for k, o in enumerate(out) if o.get("empty")]
        fa = 0
        if col:
            after = [op[0] for op in hist[col[0] + 1:]]
            if "F" in after:
                fa = 1
                # an insertion and then a fusion after the collapse (second failing loop of a function)
                if any(k in ("I", "M") and "F" in after[j + 1:] for j, k in enumerate(after)):
                    fa = 2
        return None, bool(col), fa
    return (f, ext), False, False


def search(ctx, DG, Mono, streams, t_budget):
    """streams: list of (name, iterable of (degree, history)).  Every history is followed by fuse, fuse."""
    failing, ev, distinct = [], 0, set()
    dist = {}
    _search_one.cls = (DG, Mono)
    seen_sig = set()
    samples = []
    for name, items in streams:
        items = [(d, h + [["F"], ["F"]]) for d, h in items]
        t0 = time.time()
        res = vlib.pool_map(_search_one, items, procs=16, chunksize=64) if len(items) > 400 else [_search_one(x) for x in items]
        ncol = sum(1 for r in res if r[1])
        nfa = sum(1 for r in res if r[2])
        nfa2 = sum(1 for r in res if r[2] == 2)
        ev += len(items)
        for d, h in items:
            if sum(1 for o in h if o[0] != "F") >= 2:
                distinct.add(json.dumps([d, h]))
        dist[name] = {"histories": len(items), "collapsed": ncol, "share_collapsed": round(ncol / max(1, len(items)), 3),
                      "fusion_after_collapse": nfa, "share_fusion_after_collapse": round(nfa / max(1, len(items)), 3),
                      "insert_then_fusion_after_collapse": nfa2,
                      "mean_len": round(sum(len(h) for _, h in items) / max(1, len(items)), 1),
                      "wall_s": round(time.time() - t0, 1)}
        if items and len(samples) < 6:
            samples.append({"stream": name, "degree": items[0][0], "history": items[len(items) // 2][1][:12]})
        for (degree, hist), (fl, _, _) in zip(items, res):
            if fl is None:
                continue
            f, ext = fl
            full = hist + (ext or [])
            sig = ["C11", f["kind"]] + (f["exc"] if f["kind"] == "raise" else [])
            key = json.dumps(sig)
            if key in seen_sig:
                continue
            seen_sig.add(key)

            def pred(h2, kind=f["kind"], exc=f.get("exc")):
                if not all(wf_node(tnode(o[1]), degree) for o in h2 if o[0] in ("I", "M")):
                    return False
                g = oracle(DG, Mono, degree, h2)
                return g is not None and g["kind"] == kind and g.get("exc") == exc
            small = shrink(pred, full)
            g = oracle(DG, Mono, degree, small)
            if f["kind"] == "raise":
                what = f"raise: {g['exc'][0]} in {g['exc'][1]} at operation {g['at']} of an insert/fuse history"
                exp, obs = "no exception", g["exc"]
            else:
                what = "unsound: is_empty is True although a choice vector matches no inserted tuple"
                exp, obs = "is_empty False (vector %s uncovered)" % (g["vector"],), "is_empty True"
            failing.append({"what": what, "sig": sig, "input": {"degree": degree, "history": small, "stream": name,
                                                                 "shrunk_from_len": len(full)},
                            "expected": exp, "observed": obs})
    return failing, ev, len(distinct), dist, samples


def out_of_domain(DG, Mono):
    """What the real code does outside the claimed domain (reported, not a violation)."""
    res = {}
    h = [["I", [[0, 1]]], ["I", [[1, 1]]], ["I", [[5, 1]]], ["F"]]
    f = oracle(DG, Mono, 3, h)
    res["value>=degree"] = {"history": h, "degree": 3, "result": f and f["kind"], "note":
                            "is_full counts degree-1 neighbours whatever their values: values 0,1,5 collapse, vector {1:2} uncovered"}
    h = [["I", [[0, 1], [1, 2]]], ["I", [[1, 2], [0, 1]]], ["I", [[1, 1], [1, 2]]], ["F"], ["I", [[0, 2]]], ["I", [[2, 2]]], ["F"]]
    f = oracle(DG, Mono, 3, h)
    res["unsorted-tuple"] = {"history": h, "degree": 3, "result": f and f["kind"], "note":
                             "two orderings of one delta set count as two neighbours"}
    return res


def build_streams(ctx, DG, Mono):
    rng = ctx.rng
    ex_all = None
    n_ex = ctx.n(6000, None)
    ex = []
    if n_ex is None:
        ex = [(3, h) for h in exhaustive_histories(4)]
        exhaustive = True
    else:
        # all histories of length <= 2, then a seeded subset of lengths 3..4
        ops = [["I", n] for n in small_nodes((0, 1), 3)] + [["F"]]
        ex = [(3, h) for h in exhaustive_histories(2)]
        while len(ex) < n_ex:
            L = rng.choice([3, 4, 4])
            ex.append((3, [rng.choice(ops) for _ in range(L)]))
        exhaustive = False
    # degree-2 exhaustive is small: 9 nodes + fuse, length <= 4 = 11110 histories; quick takes a subset
    ex2 = [(2, h) for h in exhaustive_histories(ctx.n(3, 4), degree=2)]
    if not ctx.thorough:
        ex2 = rng.sample(ex2, min(len(ex2), 1500))
    rnd = []
    for _ in range(ctx.n(2500, 40000)):
        degree = rng.choice([1, 2, 2, 3, 3, 3, 3, 3, 3, 4, 4])
        nidx = rng.choice([1, 2, 2, 3, 3, 4, 4, 5, 5, 5])
        rnd.append((degree, random_history(rng, nidx, degree, rng.randint(1, 40))))
    rec, rec_err = recorded_histories(DG, Mono)
    return [("exhaustive<=2idx,len<=4,deg3", ex), ("exhaustive<=2idx,deg2", ex2), ("random<=5idx,len<=40", rnd),
            ("recorded-from-Analysis.run", rec)], exhaustive, rec_err


def correspondence(ctx, DG, Mono, streams):
    rng = ctx.rng
    mism = []
    import glob
    for f in glob.glob(os.path.join(vlib.COQ, "corr", "c11_*.v")):   # stale shards of an earlier run
        os.remove(f)
    cases = []
    for name, items in streams:
        items = list(items)
        if name.startswith("recorded"):
            pick = items
        elif name.startswith("random"):
            short = [x for x in items if len(x[1]) <= 22]
            pick = rng.sample(short, min(len(short), ctx.n(250, 1500)))
        else:
            pick = rng.sample(items, min(len(items), ctx.n(200, 1500)))
        for degree, h in pick:
            cases.append((name, degree, h + [["F"], ["F"]]))
    for _ in range(ctx.n(300, 2500)):
        d, h = edge_history(rng)
        cases.append(("edge", d, h))
    full = []
    skipped = 0
    nraise = 0
    for name, degree, h in cases:
        obs, _ = run_real(DG, Mono, degree, h)
        if not representable(obs):
            skipped += 1
            continue
        if obs and "raise" in obs[-1]:
            nraise += 1
        full.append((name, degree, h[:len(obs)], obs))
    # shards: <= 500 cases and <= ~110 kB of literal text per file (coqc parses ~30 kB/s)
    shards, texts, cur, cur_t, size = [], [], [], [], 0
    for x in full:
        t = case_text(x[1], x[2], x[3])
        if cur and (len(cur) >= 500 or size + len(t) > 110000):
            shards.append(cur); texts.append(cur_t)
            cur, cur_t, size = [], [], 0
        cur.append(x); cur_t.append(t); size += len(t)
    if cur:
        shards.append(cur); texts.append(cur_t)
    jobs = [(f"c11_cases_{k}", cases_file(t)) for k, t in enumerate(texts)]
    # node_diff on random pairs (default index and explicit index)
    ndc = []
    for _ in range(ctx.n(400, 3000)):
        deg = rng.choice([2, 3, 4])
        a = rand_node(rng, rng.randint(1, 4), deg)
        if rng.random() < 0.6 and a:
            b = [list(d) for d in a]
            for _ in range(rng.choice([1, 1, 2])):
                b[rng.randrange(len(b))][0] = rng.randrange(deg)
            if rng.random() < 0.2:
                b[rng.randrange(len(b))][1] = rng.randrange(5)
        else:
            b = rand_node(rng, rng.randint(1, 4), deg)
        ix = rng.choice([None, None, rng.randrange(4)])
        try:
            r = DG.node_diff(tnode(a), tnode(b)) if ix is None else DG.node_diff(tnode(a), tnode(b), ix)
        except Exception as e:
            mism.append(f"node_diff raised {type(e).__name__} on {a} {b} {ix}")
            continue
        ndc.append((a, b, ix, bool(r[0]), r[1]))
    ndshards = [ndc[k:k + 500] for k in range(0, len(ndc), 500)]
    jobs += [(f"c11_nd_{k}", nd_file(sh)) for k, sh in enumerate(ndshards)]
    res = vlib.coq_eval_many(jobs, timeout=600)
    for k, sh in enumerate(shards):
        ok, out = res[f"c11_cases_{k}"]
        vals = vlib.parse_eval_results(out)
        if not ok or not vals:
            mism.append(f"c11_cases_{k}.v did not evaluate: " + out[-300:])
            continue
        for ci, oi in parse_pairs(vals[0]):
            name, degree, h, obs = sh[ci]
            mism.append(f"stream {name}: model and real DeltaGraph differ after operation {oi} of "
                        f"degree={degree} history={json.dumps(h[:oi + 1])} real={json.dumps(obs[oi])[:300]}")
    for k, sh in enumerate(ndshards):
        ok, out = res[f"c11_nd_{k}"]
        vals = vlib.parse_eval_results(out)
        if not ok or not vals:
            mism.append(f"c11_nd_{k}.v did not evaluate: " + out[-300:])
            continue
        import re
        for ci in [int(x) for x in re.findall(r"\d+", vals[0])]:
            mism.append(f"node_diff: model and real differ on {sh[ci]}")
    nops = sum(len(h) for _, _, h, _ in full)
    info = {"correspondence_histories": len(full), "correspondence_operations_compared": nops,
            "correspondence_histories_ending_in_exception": nraise, "correspondence_skipped_unrepresentable": skipped,
            "correspondence_node_diff_cases": len(ndc), "correspondence_files": len(jobs),
            "correspondence_by_stream": {n: sum(1 for x in full if x[0] == n) for n in sorted({x[0] for x in full})}}
    return mism[:6], info


def run(ctx):
    t0 = time.time()
    DG, Mono = get_classes()
    streams, exhaustive, rec_err = build_streams(ctx, DG, Mono)
    failing, ev, nontriv, dist, samples = search(ctx, DG, Mono, streams, None)
    for src, ex in rec_err:
        failing.append({"what": f"raise: {ex[0]} in {ex[1]} during Analysis.run(fin=True)", "sig": ["C11", "raise"] + ex,
                        "input": {"program": src}, "expected": "no exception", "observed": ex})
    iso_fail, iso_n = loop_isolation(ctx)
    failing += iso_fail
    ev += iso_n
    t1 = time.time()
    mism, cinfo = [], {}
    if ctx.coq_ok:
        mism, cinfo = correspondence(ctx, DG, Mono, streams)
    else:
        mism.append("model not built: correspondence not run")
    tot_h = sum(d["histories"] for d in dist.values())
    stats = {"evaluations": ev + cinfo.get("correspondence_histories", 0) + cinfo.get("correspondence_node_diff_cases", 0),
             "distinct_nontrivial": nontriv,
             "rule": "search: one evaluation = one history run on the real DeltaGraph with the brute-force oracle after every "
                     "operation (+ directed completion); distinct non-trivial = distinct (degree, history) pairs with at least two insertions; "
                     "exhaustive stream complete in the thorough tier, seeded subset in quick",
             "exhaustive_small_complete": exhaustive,
             "distribution": dist,
             "share_collapsed_overall": round(sum(d["collapsed"] for d in dist.values()) / max(1, tot_h), 3),
             "share_fusion_after_collapse_overall": round(sum(d["fusion_after_collapse"] for d in dist.values()) / max(1, tot_h), 3),
             "recorded_programs": len(PROGRAMS), "loop_isolation_sequences": iso_n,
             "out_of_domain": out_of_domain(DG, Mono),
             "samples": samples, "search_wall_s": round(t1 - t0, 1), "correspondence_wall_s": round(time.time() - t1, 1)}
    stats.update(cinfo)
    # degenerate generator guard
    rd = dist.get("random<=5idx,len<=40", {})
    if rd and not (0.05 <= rd["share_collapsed"] <= 0.95):
        mism.append(f"generator degenerate: random stream collapses in {rd['share_collapsed']} of histories")
    return {"failing": failing, "corr_mismatch": mism, "stats": stats}


def replay(ctx, data):
    DG, Mono = get_classes()
    inp = data.get("input", data)
    if "loops" in inp:
        f, _ = loop_isolation(ctx, [inp["loops"]])
        return f[0] if f else None
    if "program" in inp:
        import pycparser
        from pymwp import Analysis, Result
        try:
            Analysis.run(pycparser.CParser().parse(inp["program"]), res=Result(), fin=True, strict=False)
        except Exception as e:
            ex = vlib.exc_sig(e)
            return {"what": f"raise: {ex[0]} in {ex[1]} during Analysis.run(fin=True)", "sig": ["C11", "raise"] + ex,
                    "input": inp, "expected": "no exception", "observed": ex}
        return None
    f = oracle(DG, Mono, inp["degree"], inp["history"])
    if f is None:
        return None
    sig = ["C11", f["kind"]] + (f["exc"] if f["kind"] == "raise" else [])
    return {"what": f"{f['kind']} at operation {f['at']}", "sig": sig, "input": inp,
            "expected": "no exception / sound collapse", "observed": f}

