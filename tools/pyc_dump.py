"""pycparser node <-> generic tree `Node cls attrs kids` (Tree.v), Coq literal printer, C rendering.

Python form of a tree: (cls, [(attr, str), ...], [(slot, [tree, ...]), ...])
  * plain attributes in _c_ast.cfg order; a None value is OMITTED; list-valued attributes
    (quals, storage, funcspec, names, dim_quals, align) are joined with a single space
    (None/[] -> "");
  * child slots in _c_ast.cfg order, every declared slot present; single slot -> [] or [child],
    list slot -> list (None -> []).
The schema is read from pycparser's _c_ast.cfg (same file the PycSchema translator reads).
Validated by round trips (tools/props/c07.py, stats key `dump_roundtrip`).
"""
import os
import re

from pycparser import c_ast, c_generator
import pycparser

LIST_ATTRS = {"quals", "storage", "funcspec", "names", "dim_quals", "align"}


def _schema():
    cfg = os.path.join(os.path.dirname(pycparser.__file__), "_c_ast.cfg")
    out = {}
    for line in open(cfg):
        line = line.split("#", 1)[0].strip()
        if not line:
            continue
        m = re.fullmatch(r"([A-Za-z_][A-Za-z0-9_]*)\s*:\s*\[(.*)\]", line)
        assert m, line
        attrs, slots = [], []
        body = m.group(2).strip()
        for it in ([x.strip() for x in body.split(",")] if body else []):
            if it.endswith("**"):
                slots.append((it[:-2], True))
            elif it.endswith("*"):
                slots.append((it[:-1], False))
            else:
                attrs.append(it)
        out[m.group(1)] = (attrs, slots)
    return out


SCHEMA = _schema()


class DumpError(Exception):
    pass


def dump(node):
    """pycparser node -> tree.  Raises DumpError on anything the generic tree cannot represent."""
    if node is None:
        raise DumpError("None node")
    cls = type(node).__name__
    if cls not in SCHEMA:
        raise DumpError(f"unknown class {cls}")
    an, sl = SCHEMA[cls]
    attrs = []
    for a in an:
        v = getattr(node, a)
        if a in LIST_ATTRS:
            v = v or []
            if not isinstance(v, (list, tuple)) or not all(isinstance(x, str) and " " not in x for x in v):
                raise DumpError(f"{cls}.{a} = {v!r} is not a list of plain words")
            attrs.append((a, " ".join(v)))
        elif v is None:
            continue
        elif isinstance(v, (str, int)) and not isinstance(v, bool):
            attrs.append((a, str(v)))
        else:
            raise DumpError(f"{cls}.{a} = {v!r}: unsupported attribute value")
    kids = []
    for s, many in sl:
        v = getattr(node, s)
        if many:
            kids.append((s, [dump(x) for x in (v or [])]))
        else:
            kids.append((s, [] if v is None else [dump(v)]))
    return (cls, attrs, kids)


def to_node(t):
    """tree -> fresh pycparser node (empty list slots become None, like the parser's output)."""
    cls, attrs, kids = t
    an, sl = SCHEMA[cls]
    kw = {}
    ad = dict(attrs)
    for a in an:
        if a in LIST_ATTRS:
            v = ad.get(a, "")
            kw[a] = v.split(" ") if v else []
        else:
            kw[a] = ad.get(a)
    kd = dict(kids)
    for s, many in sl:
        v = kd.get(s, [])
        if many:
            kw[s] = [to_node(x) for x in v] if v else None
        else:
            if len(v) > 1:
                raise DumpError(f"{cls}.{s}: single slot with {len(v)} children")
            kw[s] = to_node(v[0]) if v else None
    return getattr(c_ast, cls)(**kw)


def to_c(node):
    return c_generator.CGenerator().visit(node)


def wf(t):
    """Python twin of Tree.wf_pyc (used to validate generators)."""
    cls, attrs, kids = t
    if cls not in SCHEMA:
        return False
    an, sl = SCHEMA[cls]
    names = [a for a, _ in attrs]
    if len(set(names)) != len(names) or any(a not in an for a in names):
        return False
    if [s for s, _ in kids] != [s for s, _ in sl]:
        return False
    for (s, many), (_, ns) in zip(sl, kids):
        if not many and len(ns) > 1:
            return False
        if not all(wf(x) for x in ns):
            return False
    return True


# ---------------------------------------------------------------------------
# paths
# ---------------------------------------------------------------------------

def children(node):
    """[(slot, index, child)] in schema order (the order Tree.v uses)."""
    out = []
    for s, many in SCHEMA[type(node).__name__][1]:
        v = getattr(node, s)
        if many:
            for i, x in enumerate(v or []):
                out.append((s, i, x))
        elif isinstance(v, list):
            # pycparser quirk: `_Static_assert(..)` as the sole body of a loop/branch leaves a Python list in a
            # single-child slot; enumerate it (such a tree is not wf_pyc and is skipped by the model streams)
            for i, x in enumerate(v):
                out.append((s, i, x))
        elif v is not None:
            out.append((s, 0, v))
    return out


def path_index(root):
    """id(node) -> path (list of [slot, index]) for every node under root."""
    idx = {}

    def go(n, p):
        idx[id(n)] = p
        for s, i, c in children(n):
            go(c, p + [[s, i]])
    go(root, [])
    return idx


def size(t):
    return 1 + sum(size(x) for _, ns in t[2] for x in ns)


def classes(t, acc=None):
    acc = set() if acc is None else acc
    acc.add(t[0])
    for _, ns in t[2]:
        for x in ns:
            classes(x, acc)
    return acc


# ---------------------------------------------------------------------------
# Coq literals
# ---------------------------------------------------------------------------

class Interner:
    """Coq string literals are slow to elaborate: every distinct string of a case file is defined
    once (`Definition sK := "..."`) and referred to by name."""

    def __init__(self):
        self.tab = {}

    def __call__(self, s):
        if not all(32 <= ord(c) < 127 for c in s):
            raise DumpError(f"non printable-ascii string {s!r}")
        if s not in self.tab:
            self.tab[s] = f"s{len(self.tab)}_"
        return self.tab[s]

    def defs(self):
        return "".join(f'Definition {n} : string := "' + s.replace('"', '""') + '".\n' for s, n in self.tab.items())


_INTERN = None


def interning():
    """start a fresh interning table used by cq_str until stop_interning()"""
    global _INTERN
    _INTERN = Interner()
    return _INTERN


def stop_interning():
    global _INTERN
    _INTERN = None


def cq_str(s):
    if _INTERN is not None:
        return _INTERN(s)
    if not all(32 <= ord(c) < 127 for c in s):
        raise DumpError(f"non printable-ascii string {s!r}")
    return '"' + s.replace('"', '""') + '"'


def _fold(items, cons, nil):
    out = nil
    for it in reversed(items):
        out = f"({cons} {it} {out})"
    return out


def cq_tree(t):
    """Coq literal using the monomorphic builders of Tree.v (kC/aC/lC...)."""
    cls, attrs, kids = t
    a = _fold([f"{cq_str(k)} {cq_str(v)}" for k, v in attrs], "aC", "aN")
    k = _fold([f"{cq_str(s)} " + _fold([cq_tree(x) for x in ns], "lC", "lN") for s, ns in kids], "kC", "kN")
    return f"(Node {cq_str(cls)} {a} {k})"


def cq_path(p):
    return _fold([f"{cq_str(s)} {i}" for s, i in p], "pC", "pN")


def cq_paths(ps):
    return _fold([cq_path(p) for p in ps], "ppC", "ppN")


def cq_strs(xs):
    return _fold([cq_str(s) for s in xs], "sC", "sN")
