"""Shared by tools/props/c05.py, c07.py, c19.py: C generators biased to the edge of pymwp's supported
syntax, observers of the REAL walkers (node paths instead of C strings), and the writer of Coq
correspondence cases for the Syntax.v model."""
import logging
import os
import sys

import pycparser
from pycparser import c_ast

import vlib
import pyc_dump as D

PARAMS = ["x", "y", "z", "w", "i", "j", "n", "m"]
_PARSER = None


def parser():
    global _PARSER
    if _PARSER is None:
        _PARSER = pycparser.CParser()
    return _PARSER


def parse(src):
    """pycparser's lexer can be left in a bad state by a parse error: use a fresh parser afterwards"""
    global _PARSER
    try:
        return parser().parse(src)
    except Exception:
        _PARSER = None
        raise


def header(name="f", params=PARAMS):
    return f"void {name}(" + ", ".join(f"int {p}" for p in params) + ")"


# ---------------------------------------------------------------------------
# generator
# ---------------------------------------------------------------------------

class Gen:
    """Random C statements.  `edge` is the probability of picking a construct from the edge /
    outside of the supported list instead of a plainly supported one."""

    def __init__(self, rng, edge=0.35, maxdepth=3, names=None, fresh=None):
        self.r = rng
        self.edge = edge
        self.maxdepth = maxdepth
        self.names = names or PARAMS
        self.fresh = fresh or ["u0", "u1", "u2", "g", "h", "arr", "ptr", "st"]
        self.labels = 0

    def v(self):
        return self.r.choice(self.names)

    def const(self):
        return self.r.choice(["0", "1", "2", "10", "100"])

    def atom(self, cast=0.15):
        a = self.v() if self.r.random() < 0.75 else self.const()
        if self.r.random() < cast:
            a = f"(int){a}"
        return a

    def cond(self, edge=None):
        edge = self.edge if edge is None else edge
        r = self.r
        if r.random() < edge * 0.6:
            return r.choice([
                f"{self.v()}++ > 0", f"--{self.v()} > 0", f"({self.v()} = {self.v()} * {self.v()}) < {self.v()}",
                f"({self.v()} = {self.v()}) > 0", f"g() > 0", f"nondet()", f"nondet() > 0 && {self.v()} < {self.v()}",
                f"arr[{self.v()}] > 0", f"{self.v()}-- > 0 && {self.v()} < 10", f"!({self.v()}++)",
                f"h({self.v()}++) > 0", f"({self.v()} += 1) < 10"])
        a, b = self.v(), r.choice([self.v(), self.const()])
        return r.choice([f"{a} < {b}", f"{a} > {b}", f"{a} == {b}", f"{a} != {b}", f"{a} <= {b}", a,
                         f"{a} > 0 && {b} < 10", f"!{a}", "true", "1"])

    def simple(self):
        """a plainly supported simple statement"""
        r = self.r
        x = self.v()
        k = r.randrange(16)
        if k < 4:
            return f"{x} = {self.atom()} {r.choice('+-*')} {self.atom()};"
        if k == 4:
            return f"{x} = {self.atom()};"
        if k == 5:
            return f"{x} = (int)({self.atom(0)} {r.choice('+-*')} {self.atom(0)});"
        if k == 6:
            return f"{x} = {r.choice(['-', '+', '!'])}{self.v()};"
        if k == 7:
            return f"{x} = {r.choice([self.v() + '++', self.v() + '--', '++' + self.v(), '--' + self.v()])};"
        if k == 8:
            return r.choice([f"{x}++;", f"{x}--;", f"++{x};", f"--{x};"])
        if k == 9:
            return f"{x} = sizeof({self.v()});"
        if k == 10:
            return r.choice(["break;", "continue;", ";", f"return {self.v()};", "return;"])
        if k == 11:
            return f"int t{r.randrange(3)};"
        if k == 12:
            return r.choice([f"assert({self.cond(0)});", f"assume({self.cond(0)});"])
        if k == 13:
            return f"{x} = {self.const()};"
        if k == 14:
            return f"{x} = {self.const()} {r.choice('+-*')} {self.const()};"
        return f"{x} = {x} {r.choice('+-*')} {self.atom()};"

    def edge_simple(self):
        """constructs at the edge of / outside the supported list"""
        r = self.r
        x, y, z = self.v(), self.v(), self.v()
        self.labels += 1
        opts = [
            f"L{self.labels}: {x} = {y} * {z};", f"L{self.labels}: ;", f"{x} = {y}, {y} = {z} * {z};", f"{x}++, {y}--;",
            f"{x} = -(-{y});", f"{x} = -(int){y};", f"{x} = !(int){y};", f"- {x}++;", f"!{x}--;", f"(int){x}++;",
            f"return {x} = {y} * {z};", f"return {x}++;", f"{x} = !{y}++;", f"{x} = !({y} = {z});", f"{x} = sizeof({y}++);",
            f"{x} = -{y}++;", f"{x} = +(-{y});", f"{x} = ~{y};", f"{x} = *ptr;", f"{x} = &{y};", f"{x} = -(int)({y} + {z});",
            f"{x} = {y} + {z} + {self.v()};", f"{x} = {y} * ({z} + 1);", f"{x} += {y};", f"{x} -= 1;", f"{x} *= {y};",
            f"{x} = arr[{y}];", f"arr[{x}] = {y};", f"{x} = g({y});", f"g({x});", f"h();", f"{x} = {y} ? {z} : 1;",
            f"goto L{max(1, self.labels - 1)};", f"int q{r.randrange(3)} = {y};", "int *pp;", "int aa[3];",
            "typedef int T;", f"{x} = {y} / {z};", f"{x} = {y} % 2;", f"{x} = {y} << 1;", f"{x} = {y} < {z};",
            f"{x} = st.fld;", f"{x} = ptr->fld;", f"{x};", "1;", f"{x} + {y};", f"(int){x};", f"-{x};",
            f"{x} = (int)(int){y};", f"{x} = (int){y} + (int){z};", f"{x} = (int)(int){y} + {z};", f"{x} = (long)({y} * 2);",
            f"{x} = ({y});", f"{x} = ({y} + {z});", f"{x} = -5;", f"{x} = -(5);", f"{x} = ++(int){y};", f"*ptr = {x};",
            f"{x} = sizeof(int);", f"{x} = (int)sizeof({y});", f"{x} = {y} = {z};", f"{x} = ({y} = {z}) + 1;",
            f"{x} = {y}++ + {z};", f"{x} = (int){y}++;", f"{x} = -{y}--;", f"{x} = !!{y};", f"{x} = - - -{y};",
            f"switch ({x}) {{ case 1: {y} = {z} + 1; break; default: {y}++; }}",
            f"switch ({x}) {{ case 1: while ({y} > 0) {{ {y}--; }} break; }}",
            "#pragma omp parallel\n", f"_Static_assert(1, \"m\");",
            f"g({x}, {y}, {z});", f"h({x}, 1, {y}, 2);", f"return g({x}, {y}, {z});", f"{x} = g({y}, {z}, 3);",
            f"{x} = g({y}) + 1;", f"assert({x}++ > 0);", f"{x} = assert({y});", f"do {x}--; while ({x} > 0);",
        ]
        return r.choice(opts)

    def for_header(self):
        r = self.r
        it = r.choice(["i", "j"])
        g = r.choice(["n", "m", "x"])
        k = r.random()
        if k < 0.6 or r.random() > self.edge:
            return r.choice([f"for ({it} = 0; {it} < {g}; {it}++)", f"for ({it} = 0; {it} < {g}; ++{it})",
                             f"for (int k{r.randrange(2)} = 0; k{0} < {g}; k{0}++)", f"for ({it} = 1; {it} <= {g}; {it} = {it} + 1)"])
        return r.choice([
            "for (;;)", f"for ({it} = 0; {it} < 10; {it}++)", f"for ({it} = 0; {it} < {g} && {it} < m; {it}++)",
            f"for ({it} = 0, j = 0; {it} < {g}; {it}++)", f"for ({it} = {g}; {it} > 0; {it}--)", f"for (; {it} < {g}; {it}++)",
            f"for ({it} = 0; {it} < {g}; )", f"for ({it} = 0; {it} < {g}++; {it}++)", f"for ({it} = 0; ({g} = {g} - 1) > {it}; {it}++)",
            f"for ({it} = y; {it} < {g}; {it}++)", f"for ({it} = 0; g() > {it}; {it}++)", f"for ({it} = 0; {it} < arr[{g}]; {it}++)",
            f"for (int k2 = 0, k3 = 1; k2 < {g}; k2++)", f"for ({it} = 0; {it} < {g}; {it}++, y++)",
            f"for ({it}++; {it} < {g}; {it}++)", f"for (g(); {it} < {g}; {it}++)", f"for ({it}; {it} < {g}; {it}++)",
            f"for ({it} += 1; {it} < {g}; {it}++)", f"for ({it} = 0; ; {it}++)",
            f"for ({it} = 0, j = y; {it} < {g}; {it}++)", f"for ({it} = 0, j = {g}; {it} < {g}; {it}++)",
            f"for (int k2 = 0, k3 = y; k2 < {g}; k2++)", f"for ({it} = 0, j = 1, y = z; {it} < {g}; {it}++)",
            f"for ({it} = {g}, j = 0; {it} < {g}; {it}++)", f"for (int k2 = {g}, k3 = {g}; k2 < {g}; k2++)"])

    def stmt(self, depth=0):
        r = self.r
        if depth >= self.maxdepth or r.random() < 0.55:
            return self.edge_simple() if r.random() < self.edge else self.simple()
        k = r.randrange(9)
        if k == 0:
            return f"if ({self.cond()}) {self.body(depth)}"
        if k == 1:
            if r.random() < 0.4:
                # an else-if ladder (the else branch IS the next conditional, no braces) closed by a plain else
                n = r.choice([1, 2, 2, 3])
                links = "".join(f" else if ({self.cond()}) {self.body(depth)}" for _ in range(n))
                last = f" else {self.body(depth)}" if r.random() < 0.8 else ""
                return f"if ({self.cond()}) {self.body(depth)}{links}{last}"
            return f"if ({self.cond()}) {self.body(depth)} else {self.body(depth)}"
        if k in (2, 3):
            return f"while ({self.cond()}) {self.body(depth)}"
        if k == 4:
            return f"do {self.body(depth)} while ({self.cond()});"
        if k in (5, 6):
            return f"{self.for_header()} {self.body(depth)}"
        if k == 7:
            return self.block(depth + 1)
        return self.edge_simple() if r.random() < self.edge else self.simple()

    def body(self, depth):
        r = self.r
        k = r.random()
        if k < 0.62:
            return self.block(depth + 1)
        if k < 0.70:
            return ";"
        if k < 0.75:
            return "{ }"
        return self.stmt(depth + 1)

    def block(self, depth, lo=1, hi=4):
        n = self.r.randint(lo, hi)
        return "{ " + " ".join(self.stmt(depth) for _ in range(n)) + " }"

    def func(self, name="f", lo=1, hi=6):
        n = self.r.randint(lo, hi)
        return header(name, self.names) + "\n{\n" + "\n".join(self.stmt(0) for _ in range(n)) + "\n}\n"


def gen_parsed(rng, edge, tries=20, **kw):
    """(source, FileAST) of one random function that pycparser accepts."""
    for _ in range(tries):
        src = Gen(rng, edge=edge, **kw).func()
        try:
            ast = parse(src)
            D.dump(ast)          # pycparser quirks (a list in a single-child slot) are not representable
            return src, ast
        except Exception:
            continue
    src = header() + "{ x = y + z; }"
    return src, parse(src)


# ---------------------------------------------------------------------------
# real-code observers
# ---------------------------------------------------------------------------

class Quiet:
    """pymwp logging off (vlib.import_pymwp already does this globally; kept explicit)."""

    def __enter__(self):
        self.prev = logging.root.manager.disable
        logging.disable(logging.CRITICAL)

    def __exit__(self, *a):
        logging.disable(self.prev)


class CaptureWarnings:
    """WARNING records of logger pymwp.analysis while active."""

    def __init__(self):
        self.records = []

    def __enter__(self):
        self.prev = logging.root.manager.disable
        logging.disable(logging.NOTSET)
        self.lg = logging.getLogger("pymwp.analysis")
        outer = self

        class H(logging.Handler):
            def emit(self, rec):
                outer.records.append(rec.getMessage())
        self.h = H(level=logging.WARNING)
        self.oldlevel, self.oldprop = self.lg.level, self.lg.propagate
        self.lg.addHandler(self.h)
        self.lg.setLevel(logging.WARNING)
        self.lg.propagate = False
        # silence the other pymwp loggers meanwhile
        self.others = []
        for name in list(logging.root.manager.loggerDict):
            if name.startswith("pymwp") and name != "pymwp.analysis":
                lg = logging.getLogger(name)
                self.others.append((lg, lg.level, lg.propagate))
                lg.setLevel(logging.CRITICAL + 1)
        return self

    def __exit__(self, *a):
        self.lg.removeHandler(self.h)
        self.lg.setLevel(self.oldlevel)
        self.lg.propagate = self.oldprop
        for lg, lvl, prop in self.others:
            lg.setLevel(lvl)
        logging.disable(self.prev)

    @property
    def unsupported(self):
        return [m for m in self.records if "Unsupported syntax" in m]


def observe_walkers(fnode):
    """Run the real Coverage / Variables / FindLoops on (a deep copy of) fnode.
    Returns dict: cov = None (raised) | list of omit paths; tree_after = tree after ast_mod | None;
    vars = list | None; loops = list of paths | None; exc = names of exceptions."""
    from copy import deepcopy
    from pymwp import Coverage, Variables, FindLoops
    out = {"exc": {}}
    node = deepcopy(fnode)
    idx = D.path_index(node)
    hits = []

    class Cov(Coverage):
        def handler(self, n, *a, **k):
            hits.append(idx.get(id(n)))
            return super().handler(n, *a, **k)
    try:
        c = Cov(node)
        out["cov"] = hits[:]
        out["full"] = c.full
        out["omit"] = list(c.omit)
        c.ast_mod()
        out["tree_after"] = D.dump(node)
    except Exception as e:
        out["cov"], out["tree_after"], out["full"] = None, None, None
        out["exc"]["cov"] = vlib.exc_sig(e)
    node2 = deepcopy(fnode)
    idx2 = D.path_index(node2)
    try:
        out["vars"] = list(Variables(node2).vars)
    except Exception as e:
        out["vars"] = None
        out["exc"]["vars"] = vlib.exc_sig(e)
    try:
        out["loops"] = [idx2[id(l)] for l in FindLoops(node2).loops]
    except Exception as e:
        out["loops"] = None
        out["exc"]["loops"] = vlib.exc_sig(e)
    return out


STMT_KINDS = ("unsupported", "visit")


def observe_dispatch(fnode):
    """Run the real Analysis.func on a deep copy of fnode (as is: callers apply ast_mod first when
    they want the default-mode tree).  Returns (visits, info): visits = [[path, unsupported?, flow?, rules]]
    for every compute_relation call on a node of the tree, in call order (flow? = a flow rule --
    binary_op / constant / id -- ran for it, directly or through a rewriting; rules = the Analysis
    methods that ran); info: exc, early_exit, warnings."""
    from copy import deepcopy
    from pymwp import Analysis, DeltaGraph
    node = deepcopy(fnode)
    idx = D.path_index(node)
    visits, stack = [], []
    info = {"exc": None, "early_exit": False, "warnings": []}
    orig_cr, orig_un = Analysis.compute_relation, Analysis._unsupported
    orig_empty = DeltaGraph.is_empty

    RULES = ("binary_op", "constant", "id", "unary_asgn", "unary_op", "if_stmt", "while_loop", "for_loop", "compound")
    FLOW = ("binary_op", "constant", "id")
    orig_rules = {r: getattr(Analysis, r) for r in RULES}

    def wrap(name):
        fn = orig_rules[name]

        def w(*a, **k):
            if stack:
                visits[stack[-1]][3].append(name)
                if name in FLOW:
                    visits[stack[-1]][2] = True
            return fn(*a, **k)
        return w

    def cr(index, n, dg):
        p = idx.get(id(n))
        if p is not None:
            visits.append([p, False, False, []])
            stack.append(len(visits) - 1)
        try:
            return orig_cr(index, n, dg)
        finally:
            if p is not None:
                stack.pop()

    def un(command):
        if stack:
            visits[stack[-1]][1] = True
        else:
            visits.append([None, True, False, []])
        return orig_un(command)

    def is_empty(self):
        v = orig_empty.fget(self)
        if v:
            info["early_exit"] = True
        return v
    Analysis.compute_relation = staticmethod(cr)
    Analysis._unsupported = staticmethod(un)
    for r in RULES:
        setattr(Analysis, r, staticmethod(wrap(r)))
    DeltaGraph.is_empty = property(is_empty)
    try:
        with CaptureWarnings() as cw:
            try:
                Analysis.func(node, False)
            except Exception as e:
                info["exc"] = vlib.exc_sig(e)
        info["warnings"] = cw.unsupported
    finally:
        Analysis.compute_relation = staticmethod(orig_cr)
        Analysis._unsupported = staticmethod(orig_un)
        for r in RULES:
            setattr(Analysis, r, staticmethod(orig_rules[r]))
        DeltaGraph.is_empty = orig_empty
    return visits, info


# ---------------------------------------------------------------------------
# Coq side
# ---------------------------------------------------------------------------

COQ_HEADER = ("From Coq Require Import String List Bool Arith.\n"
              "From PM Require Import Tree Syntax FileIO.\n"
              "Import ListNotations.\nOpen Scope string_scope.\nOpen Scope list_scope.\n"
              "Fixpoint paths_eqb (a b : list path) : bool := match a, b with [], [] => true | p :: a', q :: b' => path_eqb p q && paths_eqb a' b' | _, _ => false end.\n"
              "Definition opt_eqb {A} (f : A -> A -> bool) (a b : option A) : bool := match a, b with Some x, Some y => f x y | None, None => true | _, _ => false end.\n"
              "Fixpoint bad {A} (chk : A -> bool) (n : nat) (l : list A) : list nat := match l with [] => [] | x :: t => if chk x then bad chk (S n) t else n :: bad chk (S n) t end.\n"
              "Definition stmt_kind (k : ekind) : bool := match k with KUnsupported | KSkip | KNoop | KFlow | KEnter | KForSkip | KRaise => true | _ => false end.\n"
              "Definition visits (l : list event) : list (path * bool * bool) := flat_map (fun e => let 'Ev k p := e in if stmt_kind k then [(p, match k with KUnsupported => true | _ => false end, match k with KFlow => true | _ => false end)] else []) l.\n"
              "Fixpoint visits_eqb (a b : list (path * bool * bool)) : bool := match a, b with [] , [] => true | (p, u, f) :: a', (q, v, g) :: b' => path_eqb p q && Bool.eqb u v && Bool.eqb f g && visits_eqb a' b' | _, _ => false end.\n"
              "Definition m_cov (t : node) : option (list path) := match coverage t with Ok l => Some (map fst l) | Err _ => None end.\n"
              "Definition m_mod (t : node) : option node := match ast_mod t with Ok x => Some x | Err _ => None end.\n")


def cq_opt(x, f):
    return "None" if x is None else f"(Some {f(x)})"


cq_strs = D.cq_strs


def cq_visits(vs):
    return "[" + "; ".join(f"({D.cq_path(v[0])}, {'true' if v[1] else 'false'}, {'true' if v[2] else 'false'})" for v in vs) + "]"


def walker_case(tree, obs):
    """one Coq tuple (tree, cov paths, tree after, vars, loops)"""
    return ("(" + D.cq_tree(tree) + ",\n  " + cq_opt(obs["cov"], D.cq_paths) + ",\n  " +
            cq_opt(obs["tree_after"], D.cq_tree) + ",\n  " + cq_opt(obs["vars"], cq_strs) + ",\n  " +
            cq_opt(obs["loops"], D.cq_paths) + ")")


def _with_interning(build):
    it = D.interning()
    try:
        body = build()
    finally:
        D.stop_interning()
    return COQ_HEADER + it.defs() + body


def walker_file(items):
    """items: [(tree, obs)]"""
    def build():
        cases = [walker_case(t, o) for t, o in items]
        t = ("Definition cases : list (node * option (list path) * option node * option (list string) * option (list path)) :=\n [" +
             ";\n ".join(cases) + "].\n")
        t += "Eval vm_compute in bad (fun c => let '(t, ec, em, ev, el) := c in opt_eqb paths_eqb (m_cov t) ec) 0 cases.\n"
        t += "Eval vm_compute in bad (fun c => let '(t, ec, em, ev, el) := c in opt_eqb node_eqb (m_mod t) em) 0 cases.\n"
        t += "Eval vm_compute in bad (fun c => let '(t, ec, em, ev, el) := c in opt_eqb Tree.list_s_eqb (vars_of [t]) ev) 0 cases.\n"
        t += "Eval vm_compute in bad (fun c => let '(t, ec, em, ev, el) := c in opt_eqb paths_eqb (find_loops t) el) 0 cases.\n"
        t += "Eval vm_compute in bad (fun c => let '(t, ec, em, ev, el) := c in wf_pyc t) 0 cases.\n"
        return t
    return _with_interning(build)


def dispatch_file(items):
    """items: [(tree, visits)]"""
    def build():
        t = ("Definition cases : list (node * list (path * bool * bool)) :=\n [" +
             ";\n ".join("(" + D.cq_tree(tr) + ",\n  " + cq_visits(vs) + ")" for tr, vs in items) + "].\n")
        t += "Eval vm_compute in bad (fun c => let '(t, ev) := c in visits_eqb (visits (func_events t)) ev) 0 cases.\n"
        return t
    return _with_interning(build)


def parse_index_lists(out):
    vals = vlib.parse_eval_results(out)
    res = []
    for v in vals:
        v = v.strip()
        if v == "[]":
            res.append([])
        else:
            res.append([int(x) for x in v.strip("[]").split(";") if x.strip()])
    return res


def run_sharded(prefix, items, make_file, nlists, per=120, timeout=900):
    """items -> shards of <= per cases; returns (list of per-stream failing global indices, errors)."""
    jobs, spans = [], []
    for k in range(0, len(items), per):
        name = f"{prefix}_{k // per}"
        jobs.append((name, make_file(items[k:k + per])))
        spans.append((name, k))
    results = vlib.coq_eval_many(jobs, timeout=timeout)
    bad = [[] for _ in range(nlists)]
    errs = []
    for name, base in spans:
        ok, out = results[name]
        lists = parse_index_lists(out) if ok else []
        if not ok or len(lists) != nlists:
            errs.append(f"{name}.v did not evaluate: {out[-300:]}")
            continue
        for s in range(nlists):
            bad[s] += [base + i for i in lists[s]]
    return bad, errs


# ---------------------------------------------------------------------------
# shrinking on the generic tree
# ---------------------------------------------------------------------------

STMT_SLOTS = ("stmt", "iftrue", "iffalse", "body")
LIST_SLOTS = ("block_items", "ext", "stmts", "exprs")


def t_get(t, path):
    for s, i in path:
        t = dict(t[2])[s][i]
    return t


def t_replace(t, path, new):
    """new = None deletes the node at path (from its list)"""
    if not path:
        return new
    (s, i), rest = path[0], path[1:]
    kids = []
    for sl, ns in t[2]:
        if sl == s:
            if rest:
                ns = ns[:i] + [t_replace(ns[i], rest, new)] + ns[i + 1:]
            elif new is None:
                ns = ns[:i] + ns[i + 1:]
            else:
                ns = ns[:i] + [new] + ns[i + 1:]
        kids.append((sl, ns))
    return (t[0], t[1], kids)


def t_paths(t, pre=()):
    yield list(pre), t
    for s, ns in t[2]:
        for i, x in enumerate(ns):
            yield from t_paths(x, pre + ((s, i),))


EMPTY = ("EmptyStatement", [], [])


def shrink_candidates(t):
    nodes = list(t_paths(t))
    # deletions from statement lists, biggest subtrees first
    dels = []
    for p, n in nodes:
        if p and p[-1][0] in LIST_SLOTS:
            dels.append((D.size(n), p))
    for _, p in sorted(dels, key=lambda x: -x[0]):
        yield t_replace(t, p, None)
    # hoist a statement child in place of its parent
    for p, n in nodes:
        if not p or n[0] in ("FuncDef", "FileAST"):
            continue
        if p[-1][0] not in LIST_SLOTS + STMT_SLOTS or p[-1][0] == "body" or p[-1][0] == "ext":
            continue
        for s, ns in n[2]:
            if s in ("stmt", "iftrue", "iffalse", "block_items", "stmts"):
                for c in ns:
                    if p[-1][0] in LIST_SLOTS or c[0] != "Decl":
                        yield t_replace(t, p, c)
    # drop an else branch / replace a body by the empty statement
    for p, n in nodes:
        if p and p[-1][0] == "iffalse":
            yield t_replace(t, p[:-1], (t_get(t, p[:-1])[0], t_get(t, p[:-1])[1],
                                        [(s, [] if s == "iffalse" else ns) for s, ns in t_get(t, p[:-1])[2]]))
        if p and p[-1][0] in ("stmt", "iftrue") and n[0] != "EmptyStatement":
            yield t_replace(t, p, EMPTY)


def shrink_tree(tree, pred, budget=400):
    """greedy: apply the first candidate that still satisfies pred(source text)"""
    def ok(t):
        try:
            src = D.to_c(D.to_node(t))
            parse(src)
        except Exception:
            return None
        return src if pred(src) else None
    cur, cur_src = tree, None
    calls = 0
    progress = True
    while progress and calls < budget:
        progress = False
        for cand in shrink_candidates(cur):
            calls += 1
            if calls >= budget:
                break
            s = ok(cand)
            if s is not None:
                cur, cur_src, progress = cand, s, True
                break
    return cur, cur_src


def shrink_source(src, pred, budget=400):
    """shrink a C source (file with functions); returns the smaller source (or src)"""
    try:
        tree = D.dump(parse(src))
    except Exception:
        return src
    _, s = shrink_tree(tree, pred, budget)
    return s if s is not None else src
