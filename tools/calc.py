"""Independent Python transcription of the mwp flow calculus over plain scalar matrices, used as the
search oracle (the Coq specification coq/theories/Calculus.v is the same definition; the two are
compared on samples).  Programs are the typed statements produced by tools/cread.py.

derive(func, vector) -> (matrix | None, sites): matrix[(u, v)] in 'omwp'; None = some while/for side
condition fails for this choice vector.  Alternatives are numbered exactly like pymwp numbers them
(rows of list(dict.fromkeys((x, y, z)))), so vectors can be compared one to one."""

ORD = {"o": 0, "m": 1, "w": 2, "p": 3}
INC_DEC = {"p++", "++", "p--", "--"}
PREFIX = {"++", "--"}
BIN_OPS = {"+", "-", "*"}


def smax(a, b):
    return a if ORD[a] >= ORD[b] else b


def sprod(a, b):
    if a == "o" or b == "o":
        return "o"
    return smax(a, b)


class Mat:
    """sparse matrix over an open-ended variable set: missing diagonal = m, missing off-diagonal = o"""
    def __init__(self, cells=None, vars_=()):
        self.c = dict(cells or {})
        self.vars = list(vars_)

    def get(self, u, v):
        if (u, v) in self.c:
            return self.c[(u, v)]
        return "m" if u == v else "o"

    @staticmethod
    def identity():
        return Mat()

    def with_vars(self, vs):
        out = list(self.vars)
        for v in vs:
            if v not in out:
                out.append(v)
        return out

    def mul(self, other):
        vs = self.with_vars(other.vars)
        r = Mat(vars_=vs)
        for i in vs:
            for j in vs:
                acc = "o"
                for k in vs:
                    acc = smax(acc, sprod(self.get(i, k), other.get(k, j)))
                r.c[(i, j)] = acc
        return r

    def add(self, other):
        vs = self.with_vars(other.vars)
        r = Mat(vars_=vs)
        for i in vs:
            for j in vs:
                r.c[(i, j)] = smax(self.get(i, j), other.get(i, j))
        return r

    def eq(self, other):
        vs = self.with_vars(other.vars)
        return all(self.get(i, j) == other.get(i, j) for i in vs for j in vs)

    def star(self):
        fix = Mat(vars_=self.vars)
        cur = Mat(vars_=self.vars)
        while True:
            cur = cur.mul(self)
            nxt = fix.add(cur)
            if nxt.eq(fix):
                return nxt
            fix = nxt


def column(x, entries, vs):
    """identity on vs except column x, which is `entries` (dict var->scalar), 0 elsewhere"""
    m = Mat(vars_=vs)
    for u in vs:
        m.c[(u, x)] = entries.get(u, "o")
    return m


def leaf_bin(x, op, y, z, choice):
    """x = y op z ; y,z are ('var',name) | ('cst',)"""
    yn = y[1] if y[0] == "var" else None
    zn = z[1] if z[0] == "var" else None
    if yn is None and zn is None:
        return column(x, {}, [x]), 0
    rows = list(dict.fromkeys((x, yn, zn)))
    rows = [r for r in rows if r is not None]
    vec = []
    if x != yn and x != zn:
        vec.append("o")
    if yn is None or zn is None:
        vec.append("m")
    elif op == "*" and yn == zn:
        vec.append("w")
    elif op == "*":
        vec += ["w", "w"]
    elif op in ("+", "-") and yn == zn:
        vec.append(("p", "p", "w")[choice])
    elif op in ("+", "-"):
        vec += [("m", "p", "w")[choice], ("p", "m", "w")[choice]]
    else:
        raise ValueError("operator " + op)
    return column(x, dict(zip(rows, vec)), rows), 1


class Walk:
    def __init__(self, vector):
        self.v = vector
        self.i = 0
        self.fail = False

    def choice(self):
        c = self.v[self.i] if self.i < len(self.v) else 0
        self.i += 1
        return c

    def seq(self, ss):
        m = Mat.identity()
        for s in ss:
            m = m.mul(self.stmt(s))
        return m

    def bin(self, x, op, y, z):
        yn = y[0] == "var"
        zn = z[0] == "var"
        if not yn and not zn:
            return column(x, {}, [x])
        c = self.choice()
        return leaf_bin(x, op, y, z, c)[0]

    def stmt(self, s):
        k = s[0]
        if k == "skip":
            return Mat.identity()
        if k == "bin":
            return self.bin(s[1], s[2], s[3], s[4])
        if k == "const":
            return column(s[1], {}, [s[1]])
        if k == "copy":
            x, y = s[1], s[2]
            return Mat.identity() if x == y else column(x, {y: "m"}, [x, y])
        if k == "unasg":
            x, op, e = s[1], s[2], s[3]
            if op in ("!", "sizeof"):
                return column(x, {}, [x])
            if e[0] == "ucst":
                return column(x, {}, [x])
            if e[0] == "uvar":
                y = e[1]
                if op in INC_DEC:
                    o = "+" if op in ("p++", "++") else "-"
                    inc = lambda: self.bin(y, o, ("var", y), ("cst",))
                    cp = lambda: (Mat.identity() if x == y else column(x, {y: "m"}, [x, y]))
                    if op in PREFIX:
                        a = inc(); b = cp()
                    else:
                        a = cp(); b = inc()
                    return a.mul(b)
                if op == "-":
                    return self.bin(x, "*", ("var", y), ("cst",))
                if op == "+":
                    return Mat.identity() if x == y else column(x, {y: "m"}, [x, y])
            return Mat.identity()      # not modelled by the tool: skipped
        if k == "unary":
            op, e = s[1], s[2]
            if op in INC_DEC and e[0] == "uvar":
                o = "+" if op in ("p++", "++") else "-"
                return self.bin(e[1], o, ("var", e[1]), ("cst",))
            return Mat.identity()
        if k == "if":
            t = self.seq(s[1])
            e = self.seq(s[2])
            return e.add(t)
        if k == "while":
            m = self.stmt(s[2]).star()
            for i in m.vars:
                for j in m.vars:
                    v = m.get(i, j)
                    if v == "p" or (v == "w" and i == j):
                        self.fail = True
            return m
        if k == "for":
            x = loop_compat(s)
            if x is None:
                return Mat.identity()
            body = self.stmt(s[5])
            body.vars = body.with_vars([x])
            m = body.star()
            for i in m.vars:
                if m.get(i, i) != "m":
                    self.fail = True
            add = {}
            for i in m.vars:
                for j in m.vars:
                    if m.get(i, j) == "p":
                        add[(x, j)] = "p"
            for key, val in add.items():
                m.c[key] = smax(m.get(*key), val)
            return m
        if k == "block":
            return self.seq(s[1])
        raise ValueError(k)


def stmt_vars(s):
    k = s[0]
    U_OPS = {"p++", "++", "p--", "--", "+", "-", "!", "sizeof"}
    if k == "skip":
        return list(s[1])
    if k == "bin":
        return [s[1]] + [a[1] for a in (s[3], s[4]) if a[0] == "var"]
    if k == "const":
        return [s[1]]
    if k == "copy":
        return [s[1], s[2]]
    if k == "unasg":
        return [s[1]] + ([s[3][1]] if s[3][0] == "uvar" and s[2] in U_OPS else [])
    if k == "unary":
        return [s[2][1]] if s[2][0] == "uvar" and s[1] in U_OPS else []
    if k == "if":
        return [v for x in s[1] + s[2] for v in stmt_vars(x)]
    if k == "while":
        return list(s[1]) + stmt_vars(s[2])
    if k == "for":
        bv = stmt_vars(s[5])
        x = loop_compat(s)
        return ([x] if x is not None else []) + bv
    if k == "block":
        return [v for x in s[1] for v in stmt_vars(x)]
    raise ValueError(k)


def loop_compat(s):
    iters, srcs, conds, nxt, body = s[1], s[2], s[3], s[4], s[5]
    guard = (set(conds) | set(srcs)) - (set(iters) | set(nxt))
    if len(guard) != 1:
        return None
    x = next(iter(guard))
    if x in stmt_vars(body):
        return None
    return x


def func_vars(f):
    return sorted(set(f[1]) | {v for s in f[2] for v in stmt_vars(s)})


def derive(f, vector):
    """returns (matrix dict over func_vars or None, number of sites)"""
    w = Walk(vector)
    m = w.seq(f[2])
    vs = func_vars(f)
    if w.fail:
        return None, w.i
    return [[m.get(u, v) for v in vs] for u in vs], w.i


def count_sites(f):
    return derive(f, [])[1]
