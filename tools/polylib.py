"""Polynomials/monomials of the real pymwp <-> plain data <-> Coq literals; generators."""
import itertools
import vlib

SC = {"o": "O", "m": "M", "w": "W", "p": "P", "i": "I"}
KEYS = ["o", "m", "w", "p", "i"]


def to_data(poly):
    """real Polynomial -> [(scalar, [(v,i),...]), ...]"""
    return [(m.scalar, [tuple(d) for d in m.deltas]) for m in poly.list]


def from_data(data, raw=False):
    """[(scalar, deltas)] -> real Polynomial. raw=True bypasses the constructors' normalisation
    (attributes are set directly), to build malformed inputs."""
    from pymwp import Monomial, Polynomial
    if not raw:
        return Polynomial(*[Monomial(s, list(ds)) for s, ds in data])
    p = Polynomial()
    ms = []
    for s, ds in data:
        m = Monomial("m")
        m.scalar = s
        m.deltas = [tuple(d) for d in ds]
        ms.append(m)
    p.list = ms
    return p


def cq_mono(m):
    s, ds = m
    return "Mono %s %s" % (SC[s], vlib.cq_list(["(%d, %d)" % (d[0], d[1]) for d in ds]))


def cq_poly(data):
    return vlib.cq_list([cq_mono(m) for m in data])


def max_index(*datas):
    k = -1
    for data in datas:
        for _, ds in data:
            for d in ds:
                k = max(k, d[1])
    return k + 1


def mono_val(m, c):
    s, ds = m
    for (v, i) in ds:
        if c[i] != v:
            return None
    return s


def order(s):
    return KEYS.index(s)


def poly_terms(data, c):
    return [s for s in (mono_val(m, c) for m in data) if s is not None]


def smax(scalars):
    return max(scalars, key=order) if scalars else "o"


PROD = None


def sprod(a, b):
    # independent reference table (not read from pymwp): the documented mwp product
    if a == "i" or b == "i":
        return "i"
    if a == "o" or b == "o":
        return "o"
    return max(a, b, key=order)


def satisfiable(ds):
    seen = {}
    for v, i in ds:
        if seen.setdefault(i, v) != v:
            return False
    return True


LEAVES = [("m", "m", "m"), ("w", "w", "w"), ("p", "p", "w"), ("m", "p", "w"), ("p", "m", "w")]


def gen_leaf(rng, nsites):
    from pymwp import Polynomial
    r = rng.random()
    if r < 0.12:
        return Polynomial("o")
    if r < 0.3:
        return Polynomial("m")
    if r < 0.36:
        return Polynomial(rng.choice(["w", "p", "i"]))
    return Polynomial.from_scalars(rng.randrange(nsites), *rng.choice(LEAVES))


class GenFailure(Exception):
    """the real code raised / hung while an operand was being built: carries the failing operation"""
    def __init__(self, op, p, q, exc):
        super().__init__(f"{op} raised {exc}")
        self.op, self.p, self.q, self.exc = op, p, q, exc


def gen_reachable(rng, depth, nsites, cap=60):
    """polynomial reachable from the analysis' leaf forms by random +/x and corrections."""
    if depth == 0 or rng.random() < 0.15:
        return gen_leaf(rng, nsites)
    a = gen_reachable(rng, depth - 1, nsites, cap)
    b = gen_reachable(rng, depth - 1, nsites, cap)
    op = "add" if rng.random() < 0.45 else "times"
    pa, pb = to_data(a), to_data(b)
    try:
        r = vlib.with_timeout(lambda: (a + b) if op == "add" else (a * b), 20)
    except GenFailure:
        raise
    except BaseException as e:
        raise GenFailure(op, pa, pb, [type(e).__name__, str(e)[:100]])
    if len(r.list) > cap:
        return a
    if rng.random() < 0.2:   # a loop correction: some p / w become i (in place, as the code does)
        kind = rng.choice(["p", "pw"])
        r = r.copy()
        for m in r.list:
            if m.scalar == "p" or (kind == "pw" and m.scalar == "w"):
                m.scalar = "i"
    return r


def gen_malformed(rng, nsites):
    n = rng.choice([0, 1, 1, 2, 2, 3, 4])
    data = []
    for _ in range(n):
        k = rng.choice([0, 1, 1, 2, 2, 3])
        ds = [(rng.randrange(3), rng.randrange(nsites)) for _ in range(k)]
        mode = rng.random()
        if mode < 0.5:   # sorted unique (well formed)
            seen = {}
            for v, i in ds:
                seen.setdefault(i, v)
            ds = sorted(((v, i) for i, v in seen.items()), key=lambda d: d[1])
        data.append((rng.choice(KEYS), ds))
    return data


def all_choices(k, dom=3):
    return itertools.product(range(dom), repeat=k)
