#!/bin/bash
# Confirm and store freshly produced seeded changes: every directory <dir>/<Cxx-...>/ (patch.diff, demo.py, meta.json) is run
# through tools/seedtest.py (scratch copy of /repo, tests, demonstration with/without, the property's quick check), 4 at a time.
# usage: tools/seed_intake.sh <dir> [name-regex]
cd "$(dirname "$0")/.."
src="$1"; pat="${2:-.}"
out=$(mktemp -d /var/tmp/seedin.XXXXXX)
ls "$src" | grep -E "^C[0-9]+-" | grep -E "$pat" | \
  xargs -P 4 -I{} bash -c 'n={}; c=${n%%-*}; /venv/bin/python tools/seedtest.py $c '"$src"'/$n $n 2>&1 | grep -v conda > '"$out"'/$n.out; /venv/bin/python - '"$out"'/$n.out $n <<PY
import json,sys
try:
    d=json.load(open(sys.argv[1]))
    st="DETECTED+input" if d.get("with_failing_input") else ("DETECTED(no-input)" if d.get("detected") else "MISSED")
    if not d.get("confirmed"): st="UNCONFIRMED "+str({k:d.get(k) for k in ("demo_passes_without","patch_applies","tests_pass_with","demo_fails_with")})+" "+st
    print(sys.argv[2], st, " | ".join(d.get("check_lines") or [])[:400])
except Exception as e:
    print(sys.argv[2], "ERROR", e)
PY' 2>&1 | grep -v conda
rm -rf "$out"
