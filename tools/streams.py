"""Program streams shared by the analysis properties."""
import gen_prog
import e2e
import vlib

BIASES = [None, None, None, "overwrite-loop", "two-loops", "loops-in-branches", "chain-loop", "chain-loop", "tight-cycle", "tight-cycle", "for-accumulate", "branch-accumulate", "pair-cycle"]

# minimal regression programs (witnesses of repaired defects and of open findings); run first
CORPUS = [
    ("D1-cast-rhs", "int f(int x,int y,int z){ x = (int)(y+z); y = (int)x; z = (int)-y; }"),
    ("D2-two-constants", "int f(int x,int y,int z){ x = 1 + 2; y = x + z; }"),
    ("D4-two-failing-loops", "int f(int x,int y,int z){ while(z>0){x=x+y; y=x+x;} while(z>0){x=x+y;y=x+x;} }"),
    ("D5-diagonal", "int f(int x,int y,int z){ x=y+z; while(z>0){x=y+y;} }"),
    ("D7a-lost-infinity-constants", "int f(int x,int y,int z){ x=5;y=5;while(z>0){x=y+y;} while(z>0){z=x+x;} }"),
    ("D7b-lost-infinity", "int f(int x,int y){ while(x>0){x=y+y;} if(x>0){x=y+y; while(x>0){x=y+y;} while(x>0){y=x+x;}} else {x=y*y;} }"),
    ("paper-3.1", "int f(int X1,int X2,int X3){ X1 = X2 + X3; X1 = X1 + X1; }"),
    ("for-L-rule", "int f(int x,int y,int n,int i){ for(i=0;i<n;i++){ x = x + y; } }"),
    ("for-guard-in-body", "int f(int x,int y,int i){ for(i=0;i<x;i++){ x = x + y; } }"),
    ("nested", "int f(int x,int y,int z){ while(x>0){ while(y>0){ z = z + x; } x = y + y; } }"),
    ("no-vars", "int f(){ }"),
    ("no-sites", "int f(int x,int y){ x = y; y = 3; }"),
    ("swap-second-operand", "int f(int a,int b){ b = a - b; while(a>0){ a = b + b; } }"),
    ("unary-sugar", "int f(int x,int y){ x = y++; y = -x; x++; --y; x = !y; y = sizeof(x); +x; }"),
    ("dowhile", "int f(int x,int y){ do { x = x * y; } while (x < y); }"),
    ("rotation-4", "int f(int c0,int c1,int c2,int t){ while (t > 0) { t = c2; c2 = c1; c1 = c0; c0 = t + t; } }"),
    ("reserved-names", "int f(int found, int x){ found = true; while (x > 0) { x = x + found; found = false; } }"),
    ("reserved-names-finite", "int f(int found, int x, int y){ found = false; x = y + found; if (x > y) { found = true; } }"),
    ("duplicate-declarations", "int f(int x, int y){ if (x > 0) { int t; y = x + y; } else { int t; y = x; } int x; }"),
    ("return-in-the-middle", "int f(int x,int y){ x = x + y; return x; y = y + x; x = y * y; }"),
    ("return-then-loop", "int f(int x,int y,int z){ y = x + z; return y; while (z > 0) { x = x + y; } }"),
    ("backward-chain-for", "int f(int a,int b,int c,int d,int t,int i,int n){ for (i = 0; i < n; i++) { if (t > 0) { d = c * a; } else { d = b; } if (t > 1) { c = b + b; } else { c = a; } b = a + a; } }"),
]


def cfg_for(rng, max_sites=5):
    return gen_prog.Cfg(nvars=rng.choice([2, 3, 3, 4]), max_sites=rng.choice([3, 4, max_sites]),
                        bias=rng.choice(BIASES), constants=rng.random() < 0.6, sugar=rng.random() < 0.5,
                        max_depth=rng.choice([1, 2, 2, 3]), max_stmts=rng.choice([2, 3, 4, 5]))


def focused(ctx, n, bias):
    """n small programs of one biased family, with little random material around it"""
    out = []
    for i in range(n):
        cfg = gen_prog.Cfg(nvars=ctx.rng.choice([3, 3, 4]), max_sites=5, bias=bias, constants=True, sugar=False, max_depth=1,
                           max_stmts=ctx.rng.choice([1, 1, 2]))
        cfg.loops = ctx.rng.random() < 0.3
        out.append((f"{bias}{i}", gen_prog.gen_function(ctx.rng, cfg)[0]))
    return out


def programs(ctx, n, max_sites=5, corpus=True):
    """yield (label, src)"""
    import os
    out = []
    if corpus:
        out += [c for c in CORPUS if not (os.environ.get("VERIF_NO_SEED_CORPUS") and c[0] == "backward-chain-for")]
    for i in range(n):
        src, _, _ = gen_prog.gen_function(ctx.rng, cfg_for(ctx.rng, max_sites))
        out.append((f"gen{i}", src))
    return out


def _run(args):
    label, src, fin, strict = args
    r = e2e.run_real(src, fin, strict)
    return label, src, fin, strict, r


def run_all(progs, modes):
    """run the real analysis on every program x (fin, strict) mode, in-process (results hold live objects)."""
    res = []
    for label, src in progs:
        for fin, strict in modes:
            res.append(_run((label, src, fin, strict)))
    return res


def distribution(records):
    """measured input distribution for the evidence"""
    n = len(records)
    inf = sum(1 for r in records if r.get("infinite"))
    ks = {}
    for r in records:
        ks[r.get("index", -1)] = ks.get(r.get("index", -1), 0) + 1
    return {"functions": n, "share_infinite": round(inf / max(1, n), 3), "degree_histogram": {str(k): v for k, v in sorted(ks.items())}}


def nontrivial(d):
    """a function record is non-trivial when it has a site and a loop or branch"""
    f = d.get("typed")
    if not f or d.get("index", 0) < 1:
        return False

    def has_ctl(s):
        k = s[0]
        if k in ("while", "for", "if"):
            return True
        if k == "block":
            return any(has_ctl(x) for x in s[1])
        return False
    return any(has_ctl(s) for s in f[2])


# ---------------------------------------------------------------------------
# small scope: EVERY program of a small shape (no sampling): [constant prefix] ; loop { two leaf statements } [; one leaf]
# over three variables.  Shapes random generation reaches only by luck (pair cycles, accumulations, overwrites after a
# failing loop) are all in here.
# ---------------------------------------------------------------------------

SS_VARS = ["a", "b", "c"]


def ss_leaves():
    out = []
    for x in SS_VARS:
        out.append(f"{x} = 3;")
        for y in SS_VARS:
            if y != x:
                out.append(f"{x} = {y};")
            for z in SS_VARS:
                for op in ("+", "*"):
                    if op == "*" and z < y:
                        continue          # * is symmetric in the calculus
                    out.append(f"{x} = {y} {op} {z};")
    return out


def small_scope_all():
    """list of (label, src).  3 prefixes x 3 loop kinds x |leaves|^2 bodies, + for every body of the counted loop one trailing leaf sample"""
    leaves = ss_leaves()
    prefixes = ["", "b = 5;", "a = 5; b = 5;", "b = 5; c = 5; while (a > 0) { b = c + c; }",
                "for (i = 0; i < n; i++) { a = a + c; }", "while (n > 0) { b = a + c; }"]
    out = []
    for pi, pre in enumerate(prefixes):
        for kind in ("for", "while", "if", "forif"):
            for i, s1 in enumerate(leaves):
                for j, s2 in enumerate(leaves):
                    if kind == "for":
                        body = f"for (i = 0; i < n; i++) {{ {s1} {s2} }}"
                    elif kind == "while":
                        body = f"while (n > 0) {{ {s1} {s2} }}"
                    elif kind == "forif":
                        if pi in (1, 2):
                            continue          # (kept to four prefixes: the branches' choices are independent whatever comes before)
                        body = f"for (i = 0; i < n; i++) {{ if (c > 1) {{ {s1} }} else {{ {s2} }} }}"
                    else:
                        body = f"while (n > 0) {{ if (n > 1) {{ {s1} }} else {{ {s2} }} }}"
                    out.append((f"ss:{pi}:{kind}:{i}:{j}", f"int f(int a, int b, int c, int n, int i)\n{{\n  {pre}\n  {body}\n}}\n"))
    return out


def _ss_worker(args):
    import e2e
    label, src, cid = args
    failing = []
    outcome = {}
    for fin in (False, True):
        r = e2e.run_real(src, fin, False)
        if r["exc"] and r["exc"][0] == "Timeout":
            outcome["harness-time-limit"] = outcome.get("harness-time-limit", 0) + 1
            continue
        if r["exc"]:
            failing.append({"what": f"raise: Analysis.run raised {r['exc']}", "sig": [cid, "raise", r["exc"][0], r["exc"][1]],
                            "input": {"src": src, "opts": {"fin": fin, "strict": False}}, "expected": "a result", "observed": r["exc"]})
            continue
        d = r["funcs"].get("f")
        if d is None or d["typed"] is None:
            outcome["outside"] = outcome.get("outside", 0) + 1
            continue
        res = e2e.calculus_check(d, cid, failing, src, {"fin": fin, "strict": False}, what_prefix="[small scope] ")
        outcome[res] = outcome.get(res, 0) + 1
    for f in failing:
        f.pop("apply", None)
    return failing, outcome


def small_scope_select(ctx, n_quick):
    allp = small_scope_all()
    if ctx.thorough:
        progs = allp
    else:
        # two-loop programs (prefixes 3..) are where failures recorded by one loop meet the flows of another: 2/3 of the sample
        two = [p for p in allp if int(p[0].split(":")[1]) >= 3]
        one = [p for p in allp if int(p[0].split(":")[1]) < 3]
        k2 = min(len(two), (2 * n_quick) // 3)
        progs = ctx.rng.sample(two, k2) + ctx.rng.sample(one, min(len(one), n_quick - k2))
    return progs, len(allp)


def small_scope_map(ctx, worker, n_quick=400, extra=None):
    """worker (a module-level function) is applied to (label, src, extra) for every selected small-scope program, in parallel;
    it returns (failing list, outcome counters).  Returns (one failing record per signature, info)."""
    progs, total = small_scope_select(ctx, n_quick)
    res = vlib.pool_map(worker, [(l, s, extra) for l, s in progs], chunksize=16)
    failing, outcome = [], {}
    for f, o in res:
        failing += f
        for k, v in o.items():
            outcome[k] = outcome.get(k, 0) + v
    seen, uniq = set(), []
    for f in failing:
        k = json_key(f.get("sig"))
        if k not in seen:
            seen.add(k)
            uniq.append(f)
    return uniq, {"programs": len(progs), "of": total, "complete": len(progs) == total, "outcomes": outcome}


def json_key(x):
    import json
    return json.dumps(x, sort_keys=True)


def small_scope_check(ctx, cid, n_quick=400):
    """run the real tool on the small-scope programs (all of them in the thorough tier, a seeded sample otherwise) against the calculus"""
    progs, total = small_scope_select(ctx, n_quick)
    allp = [None] * total
    res = vlib.pool_map(_ss_worker, [(l, s, cid) for l, s in progs], chunksize=16)
    failing, outcome = [], {}
    for f, o in res:
        failing += f
        for k, v in o.items():
            outcome[k] = outcome.get(k, 0) + v
    # one report per signature is enough
    seen, uniq = set(), []
    for f in failing:
        k = tuple(f["sig"])
        if k not in seen:
            seen.add(k)
            uniq.append(f)
    return uniq, {"programs": len(progs), "of": len(allp), "complete": len(progs) == len(allp), "outcomes": outcome}
