"""Reader: pycparser FuncDef (as Analysis.func sees it, i.e. after Analysis.syntax_check) -> the typed
statement grammar of coq/theories/Analysis.v, as plain data and as a Coq literal.

Part of the trusted tie: it mirrors only the *dispatch conditions* of Analysis.compute_relation (which
node shape goes to which handler) and the attribute positions the Variables walker visits; it raises
OutsideFragment for any shape the typed grammar cannot express (those are exercised by the generic-tree
model of the syntax properties instead)."""
from pycparser import c_ast as A
import vlib

U_OPS = {"p++", "++", "p--", "--", "+", "-", "!", "sizeof"}
RESERVED = {"true", "false"}


class OutsideFragment(Exception):
    pass


def rm_cast(n):
    while isinstance(n, A.Cast) and n.expr:
        n = n.expr
    return n


def expr_vars(e):
    """names the Variables walker records inside an expression"""
    if e is None:
        return []
    if isinstance(e, A.ID):
        if e.name in RESERVED:
            raise OutsideFragment("reserved identifier")
        return [e.name]
    if isinstance(e, A.Constant):
        return []
    if isinstance(e, A.BinaryOp):
        return expr_vars(e.left) + expr_vars(e.right)
    if isinstance(e, A.UnaryOp):
        return expr_vars(e.expr) if e.op in U_OPS else []
    if isinstance(e, A.Cast):
        return expr_vars(e.expr)
    if isinstance(e, A.Assignment):
        return expr_vars(e.lvalue) + expr_vars(e.rvalue)
    if isinstance(e, A.ExprList):
        return [v for x in e.exprs for v in expr_vars(x)]
    if isinstance(e, (A.FuncCall, A.ArrayRef, A.TernaryOp)):
        return []
    raise OutsideFragment("expression " + type(e).__name__)


def atom(n):
    n = rm_cast(n)
    if isinstance(n, A.ID):
        if n.name in RESERVED:
            raise OutsideFragment("reserved identifier")
        return ("var", n.name)
    if isinstance(n, A.Constant):
        return ("cst",)
    raise OutsideFragment("operand " + type(n).__name__)


def uarg(n):
    if isinstance(n, A.Constant):
        return ("ucst",)
    if isinstance(n, A.ID):
        if n.name in RESERVED:
            raise OutsideFragment("reserved identifier")
        return ("uvar", n.name)
    if expr_vars(n):
        raise OutsideFragment("unary operand with variables inside " + type(n).__name__)
    return ("uother",)


def branch(n):
    if n is None:
        return []
    if hasattr(n, "block_items"):
        return [stmt(c) for c in (n.block_items or [])]
    return [stmt(n)]


def names(lst):
    return [e.name for e in lst if isinstance(e, (A.ID, A.Decl))]


def init_vars(node):
    if not node:
        return [], []
    if isinstance(node, A.DeclList):
        return names(node.decls), names([d.init for d in node.decls])
    exprs = node.exprs if hasattr(node, "exprs") else [node]
    for e in exprs:
        if not isinstance(e, A.Assignment):
            raise OutsideFragment("for-init " + type(e).__name__)
    return names([e.lvalue for e in exprs]), names([e.rvalue for e in exprs])


def stmt(n):
    if isinstance(n, (A.Break, A.Continue, A.EmptyStatement)):
        return ("skip", [])
    if isinstance(n, A.Return):
        return ("skip", expr_vars(n.expr))
    if isinstance(n, A.Decl):
        vs = []
        if isinstance(n.type, A.TypeDecl) and n.name:
            vs.append(n.name)
        return ("skip", vs + expr_vars(n.init))
    if isinstance(n, A.Assignment):
        if not isinstance(n.lvalue, A.ID) or n.lvalue.name in RESERVED:
            raise OutsideFragment("assignment target")
        if n.op != "=":
            raise OutsideFragment("compound assignment")
        x = n.lvalue.name
        rv = n.rvalue.expr if isinstance(n.rvalue, A.Cast) else n.rvalue
        if isinstance(rv, A.BinaryOp):
            return ("bin", x, rv.op, atom(rv.left), atom(rv.right))
        if isinstance(rv, A.Constant):
            return ("const", x)
        if isinstance(rv, A.UnaryOp):
            return ("unasg", x, rv.op, uarg(rv.expr))
        if isinstance(rv, A.ID):
            if rv.name in RESERVED:
                raise OutsideFragment("reserved identifier")
            return ("copy", x, rv.name)
        raise OutsideFragment("assignment of " + type(rv).__name__)
    if isinstance(n, A.UnaryOp):
        e = rm_cast(n.expr)
        if isinstance(e, A.ID):
            if e.name in RESERVED:
                raise OutsideFragment("reserved identifier")
            if n.op not in U_OPS:
                raise OutsideFragment("unary op " + n.op)
            return ("unary", n.op, ("uvar", e.name))
        if expr_vars(n.expr) and n.op in U_OPS:
            raise OutsideFragment("unary statement with variables inside")
        return ("unary", n.op, ("ucst",) if isinstance(e, A.Constant) else ("uother",))
    if isinstance(n, A.If):
        return ("if", branch(n.iftrue), branch(n.iffalse))
    if isinstance(n, (A.While, A.DoWhile)):
        return ("while", expr_vars(n.cond), stmt(n.stmt))
    if isinstance(n, A.For):
        iters, srcs = init_vars(n.init)
        return ("for", iters, srcs, expr_vars(n.cond), expr_vars(n.next), stmt(n.stmt))
    if isinstance(n, A.Compound):
        return ("block", [stmt(c) for c in (n.block_items or [])])
    if isinstance(n, A.FuncCall) and isinstance(n.name, A.ID) and n.name.name in ("assert", "assume"):
        return ("skip", [])
    raise OutsideFragment("statement " + type(n).__name__)


def params(fdef):
    out = []
    args = getattr(fdef.decl.type, "args", None)
    if args:
        for p in (args.params or []):
            if isinstance(p, A.Decl) and isinstance(p.type, A.TypeDecl) and p.name:
                out.append(p.name)
            elif isinstance(p, A.Decl) and p.init is not None:
                raise OutsideFragment("param init")
    return out


def read_func(fdef):
    """FuncDef -> ("func", params, [stmts])"""
    body = fdef.body.block_items or []
    return ("func", params(fdef), [stmt(c) for c in body])


# ---------------- Coq literal ----------------

def q(s):
    return vlib.cq_str(s)


def ql(l):
    return vlib.cq_list([q(x) for x in l])


def cq_atom(a):
    return "(AVar %s)" % q(a[1]) if a[0] == "var" else "ACst"


def cq_uarg(a):
    return {"ucst": "UCst", "uother": "UOther"}.get(a[0]) or "(UVar %s)" % q(a[1])


def cq_stmt(s):
    k = s[0]
    if k == "skip":
        return "(SSkip %s)" % ql(s[1])
    if k == "bin":
        return "(SBin %s %s %s %s)" % (q(s[1]), q(s[2]), cq_atom(s[3]), cq_atom(s[4]))
    if k == "const":
        return "(SConst %s)" % q(s[1])
    if k == "copy":
        return "(SCopy %s %s)" % (q(s[1]), q(s[2]))
    if k == "unasg":
        return "(SUnAsg %s %s %s)" % (q(s[1]), q(s[2]), cq_uarg(s[3]))
    if k == "unary":
        return "(SUnary %s %s)" % (q(s[1]), cq_uarg(s[2]))
    if k == "if":
        return "(SIf %s %s)" % (vlib.cq_list([cq_stmt(x) for x in s[1]]), vlib.cq_list([cq_stmt(x) for x in s[2]]))
    if k == "while":
        return "(SWhile %s %s)" % (ql(s[1]), cq_stmt(s[2]))
    if k == "for":
        return "(SFor %s %s %s %s %s)" % (ql(s[1]), ql(s[2]), ql(s[3]), ql(s[4]), cq_stmt(s[5]))
    if k == "block":
        return "(SBlock %s)" % vlib.cq_list([cq_stmt(x) for x in s[1]])
    raise ValueError(k)


def cq_func(f):
    return "{| f_params := %s; f_body := %s |}" % (ql(f[1]), vlib.cq_list([cq_stmt(x) for x in f[2]]))
