"""End-to-end machinery shared by the analysis properties (C01, C02, C10, C12, C15, C18, ...):
run the real Analysis on C text, read the analysed function into the typed grammar, compare with the
calculus oracle (tools/calc.py) and with the Coq model (coq/theories/Analysis.v, via vm_compute)."""
import itertools
import json
import os
import vlib
import cread
import calc
import polylib as PL

HEADER = ("From Coq Require Import String List Bool Arith.\nFrom PM Require Import Semiring Poly Rel Analysis.\n"
          "Import ListNotations.\nOpen Scope string_scope.\nOpen Scope list_scope.\n"
          "Definition rel_eqb (a b : rel) : bool := list_eqb String.eqb (rvars a) (rvars b) && "
          "list_eqb (list_eqb poly_eqb) (rmat a) (rmat b).\n"
          "Definition orel_eqb (a b : option rel) : bool := match a, b with Some x, Some y => rel_eqb x y | None, None => true | _, _ => false end.\n"
          "Definition bools_eqb (a b : list bool) : bool := list_eqb Bool.eqb a b.\n"
          "(* expected: (error?, infinite, index, vars, relation, is_valid over all vectors (empty when infinite)) *)\n"
          "Definition expect := (bool * bool * nat * list string * option rel * list bool)%type.\n"
          "Definition check (c : func_src * bool * expect) : nat :=\n"
          "  let '(f, stop, (err, inf, idx, vs, orl, valid)) := c in\n"
          "  match analyse f stop with\n"
          "  | RErr _ => if err then 0 else 1\n"
          "  | ROk r =>\n"
          "      if err then 2 else\n"
          "      if negb (Bool.eqb (fr_infinite r) inf) then 3 else\n"
          "      if negb (Nat.eqb (fr_index r) idx) then 4 else\n"
          "      if negb (list_eqb String.eqb (fr_vars r) vs) then 5 else\n"
          "      if negb (orel_eqb (fr_rel r) orl) then 6 else\n"
          "      if inf then 0 else\n"
          "      if negb (bools_eqb (map (accepted (fr_inf_deltas r)) (vectors [0;1;2] idx)) valid) then 7 else 0\n"
          "  end.\n"
          "Fixpoint bad (n : nat) (l : list (func_src * bool * expect)) : list (nat * nat) :=\n"
          "  match l with [] => [] | c :: t => match check c with 0 => bad (S n) t | k => (n, k) :: bad (S n) t end end.\n")

CODES = {1: "model raises, code does not", 2: "code raises, model does not", 3: "infinite differs", 4: "index differs",
         5: "variables differ", 6: "relation (variables/matrix) differs", 7: "set of valid choice vectors differs"}


def parse(src):
    from pycparser import CParser
    return CParser().parse(src)


HANDLERS = ("binary_op", "constant", "id", "unary_asgn", "unary_op", "if_stmt", "while_loop", "for_loop", "compound")


class DispatchTrace:
    """records which handler Analysis.compute_relation dispatches to, in order (wrapping done from the harness
    process only); used to validate the reader tools/cread.py against the real dispatch on every run"""
    def __init__(self):
        self.calls = []

    def __enter__(self):
        from pymwp import Analysis
        self.saved = {}
        for h in HANDLERS:
            orig = getattr(Analysis, h)
            self.saved[h] = Analysis.__dict__[h]

            def wrap(orig=orig, h=h):
                def f(*a, **k):
                    self.calls.append(h)
                    return orig(*a, **k)
                return staticmethod(f)
            setattr(Analysis, h, wrap())
        return self

    def __exit__(self, *a):
        from pymwp import Analysis
        for h, v in self.saved.items():
            setattr(Analysis, h, v)


def predicted_dispatch(f):
    """the handler sequence the typed reading predicts (pre-order), following the rewriting of unary assignments"""
    out = []

    def stmt(s):
        k = s[0]
        if k == "skip":
            return
        if k == "bin":
            out.append("binary_op")
            if s[3][0] == "cst" and s[4][0] == "cst":
                out.append("constant")
        elif k == "const":
            out.append("constant")
        elif k == "copy":
            out.append("id")
        elif k == "unasg":
            out.append("unary_asgn")
            x, op, e = s[1], s[2], s[3]
            if op in ("!", "sizeof") or e[0] == "ucst":
                out.append("constant")
            elif e[0] == "uvar":
                y = e[1]
                if op in calc.INC_DEC:
                    inc = ["binary_op"]
                    cp = ["id"]
                    out.append("compound")
                    out.extend(inc + cp if op in calc.PREFIX else cp + inc)
                elif op == "-":
                    out.append("binary_op")
                elif op == "+":
                    out.append("id")
        elif k == "unary":
            out.append("unary_op")
            if s[1] in calc.INC_DEC and s[2][0] == "uvar":
                out.append("binary_op")
        elif k == "if":
            out.append("if_stmt")
            for x in s[1]:
                stmt(x)
            for x in s[2]:
                stmt(x)
        elif k == "while":
            out.append("while_loop")
            stmt(s[2])
        elif k == "for":
            out.append("for_loop")
            if calc.loop_compat(s) is not None:
                stmt(s[5])
        elif k == "block":
            out.append("compound")
            for x in s[1]:
                stmt(x)
    for s in f[2]:
        stmt(s)
    return out


def reader_mismatch(d):
    """None, or a description of how the real dispatch differs from what the typed reading predicts
    (the real sequence may be a proper prefix only when the analysis stopped early)"""
    if d.get("typed") is None or d.get("dispatch") is None:
        return None
    if d["infinite"]:
        return None      # early exits skip parts of the program (and, with fin, resume later): not comparable
    pred, real = predicted_dispatch(d["typed"]), d["dispatch"]
    if real == pred:
        return None
    n = next((i for i, (a, b) in enumerate(zip(pred, real)) if a != b), min(len(pred), len(real)))
    return f"reader/dispatch mismatch at call {n}: predicted {pred[n:n+3]} real {real[n:n+3]}"


def run_real(src, fin, strict, timeout=30, fname=None):
    """Analysis.run on C text. Returns dict per function: observables + the typed reading of the AST that
    was analysed (after the tool's own removal pass)."""
    vlib.import_pymwp()
    from pymwp import Analysis
    out = {"src": src, "fin": fin, "strict": strict, "funcs": {}, "exc": None}
    try:
        ast = parse(src)
    except Exception as e:
        out["exc"] = ["ParseError", str(e)[:80]]
        return out
    nfuncs = sum(1 for e_ in ast.ext if type(e_).__name__ == "FuncDef")
    trace = DispatchTrace()
    try:
        with trace:
            res = vlib.with_timeout(lambda: Analysis.run(ast, fin=fin, strict=strict), timeout)
    except vlib.CaseTimeout:
        out["exc"] = ["Timeout", None]
        return out
    except Exception as e:
        out["exc"] = vlib.exc_sig(e)
        return out
    from pycparser import c_ast
    for ext in ast.ext:
        if not isinstance(ext, c_ast.FuncDef):
            continue
        name = ext.decl.name
        fr = res.relations.get(name)
        if fr is None:
            out["funcs"][name] = None
            continue
        try:
            typed = cread.read_func(ext)
        except cread.OutsideFragment as e:
            typed = None
            out.setdefault("outside", {})[name] = str(e)
        k = fr.index
        d = {"typed": typed, "infinite": bool(fr.infinite), "index": k, "variables": list(fr.variables),
             "relation": None, "valid": None, "first": None, "bound": None, "inf_flows": fr.inf_flows,
             "has_choices": fr.choices is not None, "has_bound": fr.bound is not None,
             "dispatch": list(trace.calls) if nfuncs == 1 else None}
        if fr.relation is not None:
            d["relation"] = {"vars": list(fr.relation.variables),
                             "matrix": [[PL.to_data(p) for p in row] for row in fr.relation.matrix]}
        if fr.choices is not None:
            d["valid_boxes"] = fr.choices.valid
            d["choices_index"] = fr.choices.index
            d["choices_infinite"] = bool(fr.choices.infinite)
            d["first"] = list(fr.choices.first) if fr.choices.first is not None else None
            if k <= 7:
                d["valid"] = [bool(fr.choices.is_valid(*c)) for c in itertools.product((0, 1, 2), repeat=k)]
        if fr.bound is not None:
            d["bound"] = fr.bound.to_dict()
        if fr.relation is not None and k <= 7:
            d["apply"] = fr.relation     # kept for apply_choice by the caller (not serialisable)
        out["funcs"][name] = d
    return out


def strip(d):
    """JSON-able copy of a function record"""
    return {k: v for k, v in d.items() if k != "apply"}


def bound_from_matrix(vs, mat):
    """independent reading of a scalar matrix into the bound dictionary format 'max;weak;poly' per variable"""
    out = {}
    for j, v in enumerate(vs):
        cols = {"m": [], "w": [], "p": []}
        for i, u in enumerate(vs):
            s = mat[i][j]
            if s in cols:
                cols[s].append(u)
        out[v] = ";".join(",".join(cols[k]) for k in ("m", "w", "p"))
    return out


def calculus_check(d, cid, failing, src, opts, what_prefix=""):
    """real result of one function against the calculus oracle, all 3^k vectors (k<=7)."""
    f = d["typed"]
    if f is None:
        return "outside"
    k_calc = calc.count_sites(f)
    inp = {"src": src, "opts": opts}
    if d["infinite"]:
        # the analysis may stop early (delta graph collapse), so its degree can be partial: only the verdict is comparable
        if k_calc > 7:
            return "big"
        any_valid = any(calc.derive(f, list(c))[0] is not None for c in itertools.product((0, 1, 2), repeat=k_calc))
        if any_valid or k_calc == 0:
            failing.append({"what": what_prefix + "verdict: tool says infinite but the calculus has a derivation",
                            "sig": [cid, "verdict"], "input": inp, "expected": False, "observed": True})
            return "verdict"
        return "infinite"
    if k_calc != d["index"]:
        failing.append({"what": what_prefix + f"sites: tool reports degree {d['index']}, the calculus has {k_calc} binary-operation sites",
                        "sig": [cid, "index"], "input": inp, "expected": k_calc, "observed": d["index"]})
        return "index"
    k = k_calc
    if k > 7:
        return "big"
    vs = calc.func_vars(f)
    if vs != d["variables"]:
        failing.append({"what": what_prefix + "variables: reported variable list differs from the function's variables",
                        "sig": [cid, "variables"], "input": inp, "expected": vs, "observed": d["variables"]})
        return "vars"
    derivs = {}
    for c in itertools.product((0, 1, 2), repeat=k):
        derivs[c] = calc.derive(f, list(c))[0]
    none_valid = all(m is None for m in derivs.values()) and k > 0
    if d["infinite"] != none_valid:
        failing.append({"what": what_prefix + f"verdict: tool says infinite={d['infinite']} but the calculus has "
                        f"{sum(1 for m in derivs.values() if m is not None)} of {len(derivs)} derivations",
                        "sig": [cid, "verdict"], "input": inp, "expected": none_valid, "observed": d["infinite"]})
        return "verdict"
    if d["infinite"]:
        return "infinite"
    rel = d.get("apply")
    for idx, c in enumerate(itertools.product((0, 1, 2), repeat=k)):
        m = derivs[c]
        tool_valid = d["valid"][idx]
        if tool_valid != (m is not None):
            kind = "extra-valid-choice" if tool_valid else "missing-valid-choice"
            failing.append({"what": what_prefix + f"{kind}: choice {list(c)} tool valid={tool_valid}, calculus derivation exists={m is not None}",
                            "sig": [cid, kind], "input": dict(inp, choice=list(c)), "expected": m is not None, "observed": tool_valid})
            return kind
        if m is not None and rel is not None:
            got = rel.apply_choice(*c).matrix
            if got != m:
                failing.append({"what": what_prefix + f"cell-differs: matrix at choice {list(c)} differs from the calculus derivation",
                                "sig": [cid, "cell-differs"], "input": dict(inp, choice=list(c)), "expected": m, "observed": got})
                return "cell"
    # bound = matrix of first valid choice read column-wise
    if d["first"] is not None and d["bound"] is not None:
        first = tuple(d["first"])
        m = derivs.get(first)
        if m is None:
            failing.append({"what": what_prefix + f"first: first choice {list(first)} has no derivation", "sig": [cid, "first-invalid"],
                            "input": inp, "expected": "a valid vector", "observed": list(first)})
            return "first"
        exp = bound_from_matrix(vs, m)
        if exp != d["bound"]:
            failing.append({"what": what_prefix + f"bound: bound is not the matrix of the first valid choice {list(first)} read column-wise",
                            "sig": [cid, "bound"], "input": inp, "expected": exp, "observed": d["bound"]})
            return "bound"
    return "ok"


# ---------------- Coq side ----------------

def cq_rel(r):
    if r is None:
        return "None"
    rows = vlib.cq_list([vlib.cq_list([PL.cq_poly(p) for p in row]) for row in r["matrix"]])
    return "(Some (Rel %s %s))" % (vlib.cq_list([vlib.cq_str(v) for v in r["vars"]]), rows)


def cq_case(d, stop, err=False):
    f = cread.cq_func(d["typed"])
    valid = [] if (d["infinite"] or d["valid"] is None) else d["valid"]
    exp = "(%s, %s, %d, %s, %s, %s)" % (vlib.cq_bool(err), vlib.cq_bool(d["infinite"]), d["index"],
                                         vlib.cq_list([vlib.cq_str(v) for v in d["variables"]]), cq_rel(d["relation"]),
                                         vlib.cq_list([vlib.cq_bool(b) for b in valid]))
    return "(%s, %s, %s)" % (f, vlib.cq_bool(stop), exp)


def coq_compare(tag, cases, shard=120):
    """cases: list of (label, func record, stop). Returns list of mismatch strings."""
    jobs, mism = [], []
    shards = [cases[i:i + shard] for i in range(0, len(cases), shard)]
    for si, sh in enumerate(shards):
        lits = [cq_case(d, stop) for (_, d, stop) in sh]
        text = HEADER + "Definition cases : list (func_src * bool * expect) :=\n " + vlib.cq_list(lits) + ".\nEval vm_compute in bad 0 cases.\n"
        jobs.append((f"{tag}_s{si}", text))
    outs = vlib.coq_eval_many(jobs, timeout=1200)
    for si, sh in enumerate(shards):
        ok, out = outs[f"{tag}_s{si}"]
        vals = vlib.parse_eval_results(out)
        if not ok or not vals:
            mism.append(f"stream {tag} shard {si}: coqc failed: {out[-400:]}")
            continue
        if vals[0] != "[]":
            import re
            pairs = re.findall(r"\((\d+), (\d+)\)", vals[0])
            i, code = int(pairs[0][0]), int(pairs[0][1])
            label = sh[i][0]
            mism.append(f"stream {tag} shard {si}: {len(pairs)} cases differ; first: {CODES.get(code, code)} on {label!r}")
    return mism


# ---------------- Coq calculus (Calculus.v) against the Python oracle ----------------

CALC_HEADER = ("From Coq Require Import String List Bool Arith.\nFrom PM Require Import Semiring Poly Rel Analysis Calculus.\n"
               "Import ListNotations.\nOpen Scope string_scope.\nOpen Scope list_scope.\n"
               "Definition tab_eqb (a b : list (list Sc)) := list_eqb (list_eqb sc_eqb) a b.\n"
               "Definition chk1 (f : func_src) (k : nat) (c : list nat * option (list (list Sc))) : bool :=\n"
               "  let '(m, idx) := derive_func f (fst c) in Nat.eqb idx k &&\n"
               "  match m, snd c with Some A, Some e => tab_eqb (smat_table (func_vars f) A) e | None, None => true | _, _ => false end.\n"
               "Definition chk (c : func_src * nat * list (list nat * option (list (list Sc)))) : bool :=\n"
               "  let '(f, k, l) := c in forallb (chk1 f k) l.\n"
               "Fixpoint bad (n : nat) (l : list (func_src * nat * list (list nat * option (list (list Sc))))) : list nat :=\n"
               "  match l with [] => [] | c :: t => if chk c then bad (S n) t else n :: bad (S n) t end.\n")


def cq_scmat(m):
    if m is None:
        return "None"
    return "(Some %s)" % vlib.cq_list([vlib.cq_list([PL.SC[s] for s in row]) for row in m])


def coq_calculus_compare(tag, cases, shard=150):
    """cases: list of (label, typed func, sites, [(vector, matrix|None)])"""
    jobs, mism = [], []
    shards = [cases[i:i + shard] for i in range(0, len(cases), shard)]
    for si, sh in enumerate(shards):
        lits = []
        for (_, f, k, vecs) in sh:
            vl = vlib.cq_list(["(%s, %s)" % (vlib.cq_list([str(x) for x in v]), cq_scmat(m)) for v, m in vecs])
            lits.append("(%s, %d, %s)" % (cread.cq_func(f), k, vl))
        text = (CALC_HEADER + "Definition cases : list (func_src * nat * list (list nat * option (list (list Sc)))) := " + vlib.cq_list(lits) +
                ".\nEval vm_compute in bad 0 cases.\n")
        jobs.append((f"{tag}_calc_s{si}", text))
    outs = vlib.coq_eval_many(jobs, timeout=1200)
    for si, sh in enumerate(shards):
        ok, out = outs[f"{tag}_calc_s{si}"]
        vals = vlib.parse_eval_results(out)
        if not ok or not vals:
            mism.append(f"stream {tag}-calculus shard {si}: coqc failed: {out[-400:]}")
        elif vals[0] != "[]":
            idx = [int(x) for x in vals[0].strip("[]").split(";") if x.strip()]
            mism.append(f"stream {tag}-calculus shard {si}: Calculus.v and tools/calc.py differ on {len(idx)} programs; first: {sh[idx[0]][0]!r}")
    return mism
