"""Independent symbolic executor of the typed statements (tools/cread.py) on the constant-free fragment,
used as the oracle of property C03 and cross-checked against coq/theories/Exec.v.

Values are polynomials over the INPUT variables with natural coefficients, in expanded form:
collections.Counter {sorted tuple of variable names: multiplicity}.  `-` is read like `+` (the flow
calculus bounds |y|+|z|), so nothing ever cancels.  A path fixes every branch outcome and every loop
iteration count:
    ("leaf",) | ("seq", [paths]) | ("if", bool, [paths]) | ("loop", [paths])
A compatible counted for-loop runs its body like a while (its header is not executed); a for-loop that is
not compatible, constants and unary forms are outside the fragment (exec returns None).

Nothing here is shared with tools/calc.py or with pymwp."""
from collections import Counter


class TooBig(Exception):
    pass


MAX_MONOS = 4000


# ---------------- the fragment ----------------

def body_vars(s):
    """names occurring in a statement (own collector; used only for the guard-in-body test)"""
    k = s[0]
    if k == "skip":
        return set(s[1])
    if k == "bin":
        return {s[1]} | {a[1] for a in (s[3], s[4]) if a[0] == "var"}
    if k == "const":
        return {s[1]}
    if k == "copy":
        return {s[1], s[2]}
    if k == "unasg":
        return {s[1]} | ({s[3][1]} if s[3][0] == "uvar" else set())
    if k == "unary":
        return {s[2][1]} if s[2][0] == "uvar" else set()
    if k == "if":
        return set().union(*[body_vars(x) for x in s[1] + s[2]]) if (s[1] + s[2]) else set()
    if k == "while":
        return set(s[1]) | body_vars(s[2])
    if k == "for":
        return set(s[1]) | set(s[2]) | set(s[3]) | set(s[4]) | body_vars(s[5])
    if k == "block":
        return set().union(*[body_vars(x) for x in s[1]]) if s[1] else set()
    raise ValueError(k)


def for_guard(s):
    """(guard variable or None, occurs in body?) of a for statement: the single variable of the condition /
    initialiser sources that is not an iterator"""
    iters, srcs, conds, nxt, body = s[1], s[2], s[3], s[4], s[5]
    g = (set(conds) | set(srcs)) - (set(iters) | set(nxt))
    if len(g) != 1:
        return None, False
    x = next(iter(g))
    return x, x in body_vars(body)


def counted(s):
    x, inbody = for_guard(s)
    return x is not None and not inbody


def in_fragment(s):
    k = s[0]
    if k in ("skip", "copy"):
        return True
    if k == "bin":
        return s[2] in ("+", "-", "*") and s[3][0] == "var" and s[4][0] == "var"
    if k == "if":
        return all(in_fragment(x) for x in s[1] + s[2])
    if k == "while":
        return in_fragment(s[2])
    if k == "for":
        return counted(s) and in_fragment(s[5])
    if k == "block":
        return all(in_fragment(x) for x in s[1])
    return False


def fors(s):
    """all for statements of a statement, outermost first"""
    k = s[0]
    out = []
    if k == "for":
        out.append(s)
        out += fors(s[5])
    elif k == "while":
        out += fors(s[2])
    elif k == "if":
        for x in s[1] + s[2]:
            out += fors(x)
    elif k == "block":
        for x in s[1]:
            out += fors(x)
    return out


# ---------------- values ----------------

def v_add(a, b):
    r = Counter(a)
    r.update(b)
    if len(r) > MAX_MONOS:
        raise TooBig()
    return r


def v_mul(a, b):
    r = Counter()
    for m1, c1 in a.items():
        for m2, c2 in b.items():
            r[tuple(sorted(m1 + m2))] += c1 * c2
    if len(r) > MAX_MONOS:
        raise TooBig()
    return r


def init_store(vs):
    return {v: Counter({(v,): 1}) for v in vs}


# ---------------- execution ----------------

def exec_seq(ps, ss, st):
    if len(ps) != len(ss):
        return None
    for p, s in zip(ps, ss):
        st = exec_stmt(p, s, st)
        if st is None:
            return None
    return st


def exec_stmt(p, s, st):
    k, pk = s[0], p[0]
    if pk == "leaf":
        if k == "skip":
            return st
        if k == "copy":
            st = dict(st)
            st[s[1]] = st_get(st, s[2])
            return st
        if k == "bin" and s[3][0] == "var" and s[4][0] == "var":
            a, b = st_get(st, s[3][1]), st_get(st, s[4][1])
            if s[2] in ("+", "-"):
                val = v_add(a, b)
            elif s[2] == "*":
                val = v_mul(a, b)
            else:
                return None
            st = dict(st)
            st[s[1]] = val
            return st
        return None
    if pk == "seq":
        return exec_seq(p[1], s[1], st) if k == "block" else None
    if pk == "if":
        return exec_seq(p[2], s[1] if p[1] else s[2], st) if k == "if" else None
    if pk == "loop":
        if k == "while":
            body = s[2]
        elif k == "for" and counted(s):
            body = s[5]
        else:
            return None
        for q in p[1]:
            st = exec_stmt(q, body, st)
            if st is None:
                return None
        return st
    raise ValueError(pk)


def st_get(st, v):
    if v not in st:
        st[v] = Counter({(v,): 1})
    return st[v]


def exec_func(p, f, vs):
    """f = ('func', params, body); p must be ('seq', ...). Returns {var: Counter} or None."""
    if p[0] != "seq":
        return None
    return exec_seq(p[1], f[2], init_store(vs))


# ---------------- concrete executions (numbers) ----------------

NUM_LIMIT = 10 ** 300


class Plan:
    """how the choices that are not determined by the store are taken in a concrete run: every while-loop runs `wc`
    times; an if takes the first branch ("t"), the second ("f") or alternates between visits ("alt")"""
    def __init__(self, wc, br):
        self.wc, self.br, self.visits = wc, br, 0

    def branch(self):
        self.visits += 1
        return {"t": True, "f": False}.get(self.br, self.visits % 2 == 1)


def num_stmt(s, env, plan):
    """concrete execution on natural numbers; a counted for-loop with guard X runs its body X times (X as it is when the
    loop is entered: the body does not mention it); `-` is read like `+`.  None = outside the fragment."""
    k = s[0]
    if k == "skip":
        return env
    if k == "copy":
        env[s[1]] = env[s[2]]
        return env
    if k == "bin":
        if s[3][0] != "var" or s[4][0] != "var" or s[2] not in ("+", "-", "*"):
            return None
        a, b = env[s[3][1]], env[s[4][1]]
        val = a * b if s[2] == "*" else a + b
        if val > NUM_LIMIT:
            raise TooBig()
        env[s[1]] = val
        return env
    if k == "block":
        for x in s[1]:
            env = num_stmt(x, env, plan)
            if env is None:
                return None
        return env
    if k == "if":
        for x in (s[1] if plan.branch() else s[2]):
            env = num_stmt(x, env, plan)
            if env is None:
                return None
        return env
    if k in ("while", "for"):
        if k == "for":
            if not counted(s):
                return None
            n, body = env[for_guard(s)[0]], s[5]
            if n > 200:
                raise TooBig()
        else:
            n, body = plan.wc, s[2]
        for _ in range(n):
            env = num_stmt(body, env, plan)
            if env is None:
                return None
        return env
    return None


def growth(f, vs, span=8):
    """pairs (input u, variable v) such that the final value of v strictly increases with the initial value of u over
    `span` consecutive values (all other inputs 2), in some concrete run -- together with the witness.  After as many
    iterations as there are variables a value that still grows with the count grows for ever (no subtraction, no
    constants), so such a u must appear in every bound of v."""
    out = {}
    lo = len(vs) + 2
    for wc, br in ((1, "t"), (2, "f"), (1, "alt"), (2, "alt")):
        for u in vs:
            seqs = []
            try:
                for n in range(lo, lo + span + 1):
                    env = {v: 2 for v in vs}
                    env[u] = n
                    env = num_stmt(("block", f[2]), env, Plan(wc, br))
                    if env is None:
                        return out
                    seqs.append(env)
            except TooBig:
                continue
            for v in vs:
                if v != u and (u, v) not in out and all(seqs[i][v] < seqs[i + 1][v] for i in range(span)):
                    out[(u, v)] = {"while_count": wc, "branches": br, "input": u, "values_of_input": [lo, lo + span],
                                   "final_values": [seqs[0][v], seqs[-1][v]]}
    return out


# ---------------- paths ----------------

def count_paths(s, K):
    k = s[0]
    if k == "block":
        n = 1
        for x in s[1]:
            n *= count_paths(x, K)
        return n
    if k == "if":
        a = b = 1
        for x in s[1]:
            a *= count_paths(x, K)
        for x in s[2]:
            b *= count_paths(x, K)
        return a + b
    if k in ("while", "for"):
        body = s[2] if k == "while" else s[5]
        c = count_paths(body, K)
        return sum(c ** i for i in range(K + 1))
    return 1


def all_paths(s, K):
    """generator of every path of a statement with iteration counts 0..K"""
    import itertools
    k = s[0]
    if k == "block":
        for combo in itertools.product(*[list(all_paths(x, K)) for x in s[1]]):
            yield ("seq", list(combo))
    elif k == "if":
        for b, br in ((True, s[1]), (False, s[2])):
            for combo in itertools.product(*[list(all_paths(x, K)) for x in br]):
                yield ("if", b, list(combo))
    elif k in ("while", "for"):
        body = s[2] if k == "while" else s[5]
        bp = list(all_paths(body, K))
        for n in range(K + 1):
            for combo in itertools.product(bp, repeat=n):
                yield ("loop", list(combo))
    else:
        yield ("leaf",)


def random_path(s, K, rng):
    k = s[0]
    if k == "block":
        return ("seq", [random_path(x, K, rng) for x in s[1]])
    if k == "if":
        b = rng.random() < 0.5
        return ("if", b, [random_path(x, K, rng) for x in (s[1] if b else s[2])])
    if k in ("while", "for"):
        body = s[2] if k == "while" else s[5]
        return ("loop", [random_path(body, K, rng) for _ in range(rng.randrange(0, K + 1))])
    return ("leaf",)


def func_paths(f, K, cap, rng):
    """(paths, exhaustive?) of a function body: all of them when there are at most `cap`, else `cap` random ones"""
    blk = ("block", f[2])
    n = count_paths(blk, K)
    if n <= cap:
        return list(all_paths(blk, K)), True
    seen, out = set(), []
    for _ in range(cap * 3):
        p = random_path(blk, K, rng)
        key = repr(p)
        if key not in seen:
            seen.add(key)
            out.append(p)
            if len(out) >= cap:
                break
    return out, False


# ---------------- the property's text ----------------

def summary(val):
    """what shape_ok needs of a value: the variables it mentions and, for each, whether it occurs exactly as one
    summand with coefficient one"""
    occ = set()
    for m in val:
        occ.update(m)
    single = {u: (val.get((u,), 0) == 1 and all(u not in m for m in val if m != (u,))) for u in occ}
    return occ, single


def shape_violations(col, summ):
    """col: {variable: 'o'|'m'|'w'|'p'|'i'} (missing = 'o'); summ = summary(value).  Returns the list of clauses
    of the property the value breaks."""
    occ, single = summ
    bad = []
    if any(col.get(u, "o") == "o" for u in occ):
        bad.append("mentions-unlisted")
    ms = [u for u in occ if col.get(u, "o") == "m"]
    if any(not single[u] for u in ms):
        bad.append("max-not-single-summand")
    if len(ms) > 1:
        bad.append("adds-two-max")
    if ms and any(col.get(u, "o") == "w" for u in occ):
        bad.append("max-plus-weak-term")
    return bad


def show_val(val, limit=12):
    terms = []
    for m, c in sorted(val.items()):
        terms.append(("" if c == 1 else str(c) + "*") + "*".join(m))
    s = " + ".join(terms[:limit])
    return s + (" + ..." if len(terms) > limit else "")


# ---------------- Coq literals ----------------

def cq_path(p):
    k = p[0]
    if k == "leaf":
        return "PLeaf"
    if k == "seq":
        return "(PSeq [%s])" % "; ".join(cq_path(x) for x in p[1])
    if k == "if":
        return "(PIf %s [%s])" % ("true" if p[1] else "false", "; ".join(cq_path(x) for x in p[2]))
    if k == "loop":
        return "(PLoop [%s])" % "; ".join(cq_path(x) for x in p[1])
    raise ValueError(k)
