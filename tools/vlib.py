"""Shared machinery for /verif/tools/check.py: paths, translators, Coq build,
Print-Assumptions parsing, model evaluation inside Coq, evidence and replay files,
known findings, process pool with per-case timeouts."""
import fcntl
import glob
import hashlib
import json
import os
import random
import re
import signal
import subprocess
import sys
import time

ROOT = os.path.dirname(os.path.dirname(os.path.abspath(__file__)))
COQ = os.environ.get("VERIF_COQ_DIR") or os.path.join(ROOT, "coq")
REPO = os.environ.get("PYMWP_REPO", "/repo")
EVID = os.environ.get("VERIF_EVID_DIR") or os.path.join(ROOT, "evidence")
REPLAYS = os.environ.get("VERIF_REPLAY_DIR") or os.path.join(ROOT, "replays")
CORPUS = os.path.join(ROOT, "corpus")
PY = "/venv/bin/python"
COQ_TIMEOUT = int(os.environ.get("VERIF_COQ_TIMEOUT", "1500"))

ALLOWED_AXIOMS = set()   # the development declares none and expects "Closed under the global context"

FORBIDDEN = re.compile(r"\b(Admitted|admit|Axiom|Axioms|Parameter|Parameters|Conjecture|Conjectures|Hypothesis|Hypotheses|Variable|Variables)\b|Unset\s+Guard|bypass_check|Admit Obligations|type-in-type|impredicative-set|Unset\s+Universe|Unset\s+Positivity")


def seed():
    try:
        return int(os.environ.get("VERIF_SEED", "20260930"))
    except ValueError:
        return 20260930


def log(*a):
    print(*a, file=sys.stderr, flush=True)


# ---------------------------------------------------------------------------
# build
# ---------------------------------------------------------------------------

class BuildLock:
    def __enter__(self):
        self.f = open(os.path.join(ROOT, ".build.lock"), "w")
        fcntl.flock(self.f, fcntl.LOCK_EX)
        return self

    def __exit__(self, *a):
        fcntl.flock(self.f, fcntl.LOCK_UN)
        self.f.close()


def run_cmd(cmd, cwd=None, timeout=None, env=None, inp=None):
    e = dict(os.environ)
    if env:
        e.update(env)
    try:
        p = subprocess.run(cmd, cwd=cwd, timeout=timeout, env=e, input=inp,
                           stdout=subprocess.PIPE, stderr=subprocess.STDOUT, text=True)
        return p.returncode, p.stdout
    except subprocess.TimeoutExpired as ex:
        out = ex.stdout if isinstance(ex.stdout, str) else (ex.stdout or b"").decode("utf8", "replace")
        return 124, (out or "") + f"\n[timeout after {timeout}s]"


def translate():
    """Run all translators against the current /repo working tree."""
    sys.path.insert(0, os.path.join(ROOT, "tools"))
    import translate as tr
    return tr.run()


def coq_files():
    fs = []
    for d in ("gen", "theories", "props"):
        fs += sorted(glob.glob(os.path.join(COQ, d, "*.v")))
    return [os.path.relpath(f, COQ) for f in fs]


def scan_forbidden(files=None):
    """grep the hand-written development for Admitted/Axiom/... (comments stripped)."""
    hits = []
    for rel in (files or coq_files()):
        p = os.path.join(COQ, rel)
        try:
            txt = open(p).read()
        except OSError:
            continue
        txt = strip_coq_comments(txt)
        in_section = 0
        for n, line in enumerate(txt.split("\n"), 1):
            if re.match(r"\s*Section\b", line):
                in_section += 1
            if re.match(r"\s*End\b", line) and in_section:
                in_section -= 1
            m = FORBIDDEN.search(line)
            if m:
                w = m.group(0)
                if in_section and w in ("Variable", "Variables", "Hypothesis", "Hypotheses"):
                    continue   # section-local: discharged at End
                hits.append(f"{rel}:{n}: {w}")
    return hits


def strip_coq_comments(t):
    out, depth, i, instr = [], 0, 0, False
    while i < len(t):
        c = t[i]
        if depth == 0 and c == '"':
            instr = not instr
            out.append(c); i += 1; continue
        if not instr and t.startswith("(*", i):
            depth += 1; i += 2; continue
        if not instr and depth and t.startswith("*)", i):
            depth -= 1; i += 2; continue
        if depth == 0:
            out.append(c)
        elif c == "\n":
            out.append(c)
        i += 1
    return "".join(out)


def make_makefile():
    files = coq_files()
    rc, out = run_cmd(["coq_makefile", "-f", "_CoqProject", "-o", "Makefile"] + files, cwd=COQ, timeout=120)
    return rc, out


class TargetLock:
    """lock specific to a set of make targets (different targets build concurrently)"""
    def __init__(self, targets):
        d = os.path.join(ROOT, ".build.lock.d")
        os.makedirs(d, exist_ok=True)
        key = re.sub(r"[^A-Za-z0-9_.]", "_", " ".join(targets))[:120]
        self.path = os.path.join(d, key)

    def __enter__(self):
        self.f = open(self.path, "w")
        fcntl.flock(self.f, fcntl.LOCK_EX)
        return self

    def __exit__(self, *a):
        fcntl.flock(self.f, fcntl.LOCK_UN)
        self.f.close()


def coq_make(targets, jobs=16):
    """Full .vo build of the given targets (dependency cone only). Returns (ok, log)."""
    with BuildLock():
        rc, out = make_makefile()
    if rc != 0:
        return False, out
    with TargetLock(targets):
        # every single coqc runs under its own time limit, so that one diverging file cannot eat the whole budget
        rc, out = run_cmd(["make", f"-j{jobs}", "COQC=timeout 900 coqc"] + targets, cwd=COQ, timeout=COQ_TIMEOUT)
        if rc != 0 and "Error" not in out[-3000:]:
            # a concurrent build of a shared dependency can leave a truncated .vo: retry once
            rc, out = run_cmd(["make", f"-j{jobs}"] + targets, cwd=COQ, timeout=COQ_TIMEOUT)
        return rc == 0, out


def coq_prop_file(cid):
    """(Re)compile props/<cid>.v on its own so that Print Assumptions output is captured.
    Returns (ok, output)."""
    rel = f"props/{cid}.v"
    with BuildLock():
        rc, out = make_makefile()
    if rc != 0:
        return False, out
    with TargetLock([rel + "o"]):
        vo = os.path.join(COQ, rel + "o")
        if os.path.exists(vo):
            os.remove(vo)
        rc, out = run_cmd(["make", "-j16", rel + "o"], cwd=COQ, timeout=COQ_TIMEOUT)
        return rc == 0, out


def parse_theorems(cid):
    """Names of the Theorem statements in props/<cid>.v and the Print Assumptions requests."""
    txt = strip_coq_comments(open(os.path.join(COQ, f"props/{cid}.v")).read())
    thms = re.findall(r"^\s*(?:Theorem|Corollary)\s+([A-Za-z0-9_']+)", txt, re.M)
    pa = re.findall(r"^\s*Print Assumptions\s+([A-Za-z0-9_']+)\s*\.", txt, re.M)
    return thms, pa


def parse_assumptions(output, names):
    """Split coqc output of k `Print Assumptions` commands (in order) into per-theorem axiom lists."""
    # each command prints either "Closed under the global context" or "Axioms:\n name : type ..."
    blocks = re.split(r"(?m)^(?=Closed under the global context|Axioms:)", output)
    blocks = [b for b in blocks if b.startswith("Closed under") or b.startswith("Axioms:")]
    res = {}
    for n, b in zip(names, blocks):
        if b.startswith("Closed under"):
            res[n] = []
        else:
            ax = re.findall(r"(?m)^([A-Za-z_][A-Za-z0-9_.']*)\s*:", b[len("Axioms:"):])
            res[n] = ax
    return res, len(blocks)


def coq_eval(name, text, timeout=600):
    """Write corr/<name>.v and run coqc on it; returns (ok, stdout)."""
    d = os.path.join(COQ, "corr")
    os.makedirs(d, exist_ok=True)
    p = os.path.join(d, name + ".v")
    with open(p, "w") as f:
        f.write(text)
    rc, out = run_cmd(["bash", "-c", f"ulimit -s unlimited 2>/dev/null; exec coqc -Q theories PM -Q gen PMGen -Q corr PMCorr corr/{name}.v"],
                      cwd=COQ, timeout=timeout)
    for ext in (".vo", ".vok", ".vos", ".glob"):
        q = os.path.join(d, name + ext)
        if os.path.exists(q):
            os.remove(q)
    aux = os.path.join(d, "." + name + ".aux")
    if os.path.exists(aux):
        os.remove(aux)
    return rc == 0, out


def coq_eval_many(jobs, timeout=900, par=16):
    """jobs: list of (name, text). Runs coqc in parallel. Returns dict name -> (ok, out)."""
    from concurrent.futures import ThreadPoolExecutor
    with ThreadPoolExecutor(max_workers=par) as ex:
        futs = {n: ex.submit(coq_eval, n, t, timeout) for n, t in jobs}
        return {n: f.result() for n, f in futs.items()}


def parse_eval_results(out):
    """Every `= value : type` block printed by Eval, whitespace-normalised."""
    vals = re.findall(r"(?s)^\s*= (.*?)\n\s*: ", out, re.M)
    return [re.sub(r"\s+", " ", v).strip() for v in vals]


# ---------------------------------------------------------------------------
# Coq literal printers
# ---------------------------------------------------------------------------

def cq_str(s):
    return '"' + s.replace('"', '""') + '"'


def cq_list(xs):
    return "[" + "; ".join(xs) + "]"


def cq_nat(n):
    assert n >= 0
    return f"{n}"


def cq_bool(b):
    return "true" if b else "false"


def cq_opt(x, f):
    return "None" if x is None else f"(Some {f(x)})"


# ---------------------------------------------------------------------------
# evidence / replay / known findings
# ---------------------------------------------------------------------------

def write_evidence(cid, tier, level, coverage, wall, violations, assumptions):
    os.makedirs(EVID, exist_ok=True)
    ev = {"property_id": cid, "tier": tier, "seed": seed(), "level": level,
          "coverage": coverage, "assumptions": assumptions, "wall_s": round(wall, 2),
          "violations": violations}
    with open(os.path.join(EVID, f"{cid}.json"), "w") as f:
        json.dump(ev, f, indent=1, sort_keys=True, default=str)
        f.write("\n")


def write_replay(cid, data):
    d = os.path.join(REPLAYS, cid)
    os.makedirs(d, exist_ok=True)
    h = hashlib.sha1(json.dumps(data, sort_keys=True, default=str).encode()).hexdigest()[:10]
    p = os.path.join(d, f"{h}.json")
    with open(p, "w") as f:
        json.dump(data, f, indent=1, sort_keys=True, default=str)
        f.write("\n")
    return p


def known_findings():
    p = os.path.join(ROOT, "known_findings.json")
    if not os.path.exists(p):
        return {"open": [], "fixed": []}
    return json.load(open(p))


def corpus(cid):
    """Committed regression inputs for a property (run first)."""
    p = os.path.join(CORPUS, f"{cid}.json")
    if os.path.exists(p):
        return json.load(open(p))
    return []


# ---------------------------------------------------------------------------
# running real pymwp code with per-case time limits
# ---------------------------------------------------------------------------

class CaseTimeout(Exception):
    pass


def _alarm(signum, frame):
    raise CaseTimeout()


def with_timeout(fn, secs, *a, **k):
    old = signal.signal(signal.SIGALRM, _alarm)
    signal.setitimer(signal.ITIMER_REAL, secs)
    try:
        return fn(*a, **k)
    finally:
        signal.setitimer(signal.ITIMER_REAL, 0)
        signal.signal(signal.SIGALRM, old)


def import_pymwp():
    """Import pymwp from the CURRENT /repo working tree (never a cached copy)."""
    if REPO not in sys.path:
        sys.path.insert(0, REPO)
    import logging
    logging.disable(logging.CRITICAL)
    import pymwp
    assert os.path.realpath(os.path.dirname(pymwp.__file__)) == os.path.realpath(os.path.join(REPO, "pymwp")), pymwp.__file__
    return pymwp


def pool_map(fn, items, procs=16, chunksize=8):
    """Fork-based parallel map (workers import the current /repo)."""
    import multiprocessing as mp
    if len(items) == 0:
        return []
    ctx = mp.get_context("fork")
    with ctx.Pool(min(procs, max(1, len(items)))) as pool:
        return pool.map(fn, items, chunksize=chunksize)


def exc_sig(e):
    """Canonical description of an exception raised by pymwp: (type, innermost pymwp function)."""
    import traceback
    tb = traceback.extract_tb(e.__traceback__)
    fn = None
    for fr in tb:
        if os.sep + "pymwp" + os.sep in fr.filename:
            fn = os.path.basename(fr.filename) + ":" + fr.name
    return [type(e).__name__, fn]
