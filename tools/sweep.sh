#!/bin/bash
# Runs every registered quick check under several seeds and prints one line per (seed, property) that is not clean.
# usage: tools/sweep.sh "1 2 3" [tier]
cd "$(dirname "$0")/.."
seeds=${1:-"1 2 3"}; tier=${2:-quick}
/venv/bin/python tools/check.py --setup > /dev/null 2>&1
for s in $seeds; do
  for c in C01 C02 C03 C04 C05 C06 C07 C08 C09 C10 C11 C12 C13 C14 C15 C16 C17 C18 C19 C20; do
    out=$(VERIF_SEED=$s VERIF_NO_CLEAN=1 /venv/bin/python tools/check.py $c --tier $tier 2>&1); rc=$?
    line=$(echo "$out" | grep -E "^$c: theorems" | tail -1)
    if [ $rc -ne 0 ] || echo "$out" | grep -q VIOLATION; then
      echo "ALARM seed=$s $c rc=$rc :: $line"; echo "$out" | grep -E "failing input|BROKEN|VIOLATION" | head -4 | cut -c1-400
    else
      echo "ok seed=$s $line"
    fi
  done
done
