#!/bin/bash
# Coq build of the given make targets (relative to /verif/coq), e.g.
#   tools/build.sh theories/Choice.vo props/C04.vo
# Regenerates gen/ from /repo and the Makefile under a short global lock, then runs make under a lock
# that is specific to the requested targets (so that people building different files do not wait for
# each other). Never use -vos/-vok.
cd "$(dirname "$0")/.."
mkdir -p /verif/.build.lock.d
flock /verif/.build.lock bash -c 'python3 tools/translate.py >/dev/null 2>&1 || echo "translate failed" >&2; cd coq; coq_makefile -f _CoqProject -o Makefile $(ls gen/*.v theories/*.v props/*.v) >/dev/null 2>&1'
cd coq
key=$(echo "$@" | tr -c 'A-Za-z0-9_.\n' '_' | cut -c1-120)
exec flock "/verif/.build.lock.d/$key" timeout 1500 make -j8 "$@"
