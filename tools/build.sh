#!/bin/bash
# Serialised Coq build of the given make targets (relative to /verif/coq), e.g.
#   tools/build.sh theories/Choice.vo props/C04.vo
# Regenerates gen/ from /repo and the Makefile first. Never use -vos/-vok.
set -e
cd "$(dirname "$0")/.."
python3 tools/translate.py >/dev/null || echo "translate failed" >&2
cd coq
exec flock /verif/.build.lock bash -c 'coq_makefile -f _CoqProject -o Makefile $(ls gen/*.v theories/*.v props/*.v) >/dev/null 2>&1; timeout 1500 make -j8 "$@"' _ "$@"
