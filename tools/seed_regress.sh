#!/bin/bash
# Re-run every stored seeded change (seeded/<name>/) against the current checks, 4 at a time, each on its own scratch copy
# of /repo and of coq/ (tools/seedtest.py).  Prints one line per seed; exit 1 if a confirmed seed is not detected.
# usage: tools/seed_regress.sh [name-glob]
cd "$(dirname "$0")/.."
pat="${1:-*}"
tmp=$(mktemp -d /var/tmp/seedreg.XXXXXX)
trap 'rm -rf "$tmp"' EXIT
one() {
  name="$1"; tmp="$2"
  cid="${name%%-*}"
  cp -r "seeded/$name" "$tmp/$name"
  /venv/bin/python tools/seedtest.py "$cid" "$tmp/$name" "$name" 2>&1 | grep -v conda > "$tmp/$name.out"
  python3 - "$tmp/$name.out" "$name" <<'PY'
import json, sys
try:
    d = json.load(open(sys.argv[1]))
    st = "DETECTED+input" if d.get("with_failing_input") else ("DETECTED(no-input)" if d.get("detected") else "MISSED")
    if not d.get("confirmed"):
        st = "UNCONFIRMED " + st
    print(sys.argv[2], st, (d.get("check_lines") or [""])[-2][:140] if len(d.get("check_lines") or []) > 1 else "")
except Exception as e:
    print(sys.argv[2], "ERROR", e)
PY
}
export -f one
ls seeded | grep -E "^C[0-9]+" | while read n; do case "$n" in $pat) echo "$n";; esac; done | xargs -P 4 -I{} bash -c 'one {} '"$tmp" | tee "$tmp/summary.txt"
! grep -q "MISSED\|ERROR" "$tmp/summary.txt"
