#!/venv/bin/python
"""Entry point of every registered check.

  tools/check.py Cxx [--tier quick|thorough]     decide property Cxx on /repo's working tree
  tools/check.py Cxx --replay <file>              re-run one recorded failing input
  tools/check.py --setup                          translators + full Coq build

Protocol (DESIGN.md section 4): translators -> Coq build of the property's dependency cone ->
forbidden-construct scan -> Print Assumptions -> correspondence (model vs real code) ->
oracle search (real code vs specification).  A concrete failing input => VIOLATION with that
input as replay; a broken translator / proof / correspondence with no failing input found =>
VIOLATION ... no-failing-input-found.
"""
import argparse
import importlib
import json
import os
import random
import sys
import time
import traceback

sys.path.insert(0, os.path.dirname(os.path.abspath(__file__)))
os.environ.setdefault("PYTHONHASHSEED", "0")
import vlib  # noqa: E402

TRUSTED_BASE = [
    "Coq 8.16.1 kernel + coqc (vm_compute used; no native_compute)",
    "tools/translate.py (fail-closed AST translators producing coq/gen/*.v)",
    "tools/ correspondence harness: generators, canonicalisers, Coq literal printers",
    "CPython 3.12 + pycparser 2.23 semantics are modelled, not verified",
]


class Ctx:
    def __init__(self, cid, tier, coq_ok, broken):
        self.cid = cid
        self.tier = tier
        self.seed = vlib.seed()
        self.rng = random.Random(f"{cid}:{self.seed}")
        self.coq_ok = coq_ok          # the model files compiled, so Coq-side evaluation is possible
        self.broken = broken          # some obligation already failed: search with the thorough budget
        self.thorough = (tier == "thorough") or bool(broken)

    def n(self, quick, thorough):
        return thorough if self.thorough else quick


def load_plugin(cid):
    return importlib.import_module(f"props.{cid.lower()}")


def setup():
    t0 = time.time()
    ch, errs = vlib.translate()
    for k, v in errs.items():
        print(f"TRANSLATE-ERROR {k}: {v}")
    # -k: a file that does not build must not prevent the others from being built; every check rebuilds (and
    # reports on) its own dependency cone anyway, so setup only fails when nothing at all can be built
    with vlib.BuildLock():
        vlib.make_makefile()
    rc, out = vlib.run_cmd(["make", "-k", "-j16", "COQC=timeout 900 coqc", "all"], cwd=vlib.COQ, timeout=2400)
    print(out[-3000:])
    base_ok, _ = vlib.coq_make(["theories/Semiring.vo"])
    ok = base_ok
    print(f"setup: full build {'ok' if rc == 0 else 'INCOMPLETE (see above; the affected checks will report it)'}; "
          f"base {'ok' if base_ok else 'FAILED'} in {time.time()-t0:.1f}s")
    # OCaml extraction build (if present)
    mk = os.path.join(vlib.ROOT, "ocaml", "build.sh")
    if ok and os.path.exists(mk):
        rc, o = vlib.run_cmd(["bash", mk], cwd=os.path.join(vlib.ROOT, "ocaml"), timeout=900)
        print(o[-2000:])
        ok = ok and rc == 0
    return 0 if ok else 1


def main():
    ap = argparse.ArgumentParser()
    ap.add_argument("cid", nargs="?")
    ap.add_argument("--tier", default=os.environ.get("VERIF_TIER", "quick"), choices=["quick", "thorough"])
    ap.add_argument("--replay")
    ap.add_argument("--setup", action="store_true")
    args = ap.parse_args()
    if args.setup:
        sys.exit(setup())
    cid = args.cid
    t0 = time.time()
    plugin = load_plugin(cid)

    if args.replay:
        data = json.load(open(args.replay))
        ctx = Ctx(cid, args.tier, True, [])
        r = plugin.replay(ctx, data)
        if r:
            print(f"replay: still failing: {r.get('what')}")
            print(f"VIOLATION property={cid} replay={args.replay}")
            sys.exit(1)
        print("replay: input no longer fails")
        sys.exit(0)

    broken = []          # obligations that do not check (strings)
    # 1. translators
    _, terrs = vlib.translate()
    need_tr = getattr(plugin, "TRANSLATORS", None)
    for k, v in terrs.items():
        if need_tr is None or k in need_tr:
            broken.append(f"translator {k}: {v}")
    # 2. build of the dependency cone (thorough: from clean)
    if args.tier == "thorough" and os.environ.get("VERIF_NO_CLEAN") != "1":
        with vlib.BuildLock():
            vlib.make_makefile()
            vlib.run_cmd(["make", "clean"], cwd=vlib.COQ, timeout=300)
    targets = [f"props/{cid}.vo"] + [t for t in getattr(plugin, "COQ_TARGETS", [])]
    ok, out = vlib.coq_make(targets)
    coq_ok = ok
    model_ok = ok
    if not ok:
        tail = out[-1500:]
        broken.append(f"coq build of {targets} failed: {tail}")
        # are at least the model files (needed for Coq-side evaluation) there?
        mt = getattr(plugin, "MODEL_TARGETS", [])
        if mt:
            model_ok, _ = vlib.coq_make(mt)
        else:
            model_ok = False
    # 3. forbidden constructs
    hits = vlib.scan_forbidden()
    if hits:
        broken.append("forbidden constructs: " + "; ".join(hits[:10]))
    # 4. assumptions
    thms, pa = vlib.parse_theorems(cid)
    assum = {}
    discharged = 0
    if ok:
        ok2, pout = vlib.coq_prop_file(cid)
        if not ok2:
            broken.append(f"props/{cid}.v failed: {pout[-800:]}")
        else:
            assum, nblocks = vlib.parse_assumptions(pout, pa)
            if nblocks != len(pa):
                broken.append(f"Print Assumptions blocks {nblocks} != requests {len(pa)}")
            missing = [t for t in thms if t not in pa]
            if missing:
                broken.append(f"theorems without Print Assumptions: {missing}")
            for t in thms:
                ax = assum.get(t)
                if ax is None:
                    continue
                bad = [a for a in ax if a not in vlib.ALLOWED_AXIOMS]
                if bad:
                    broken.append(f"{t} depends on axioms {bad}")
                else:
                    discharged += 1
    # 4b. thorough tier: independent re-check of the property file and everything it depends on with coqchk
    coqchk_report = None
    if args.tier == "thorough" and ok:
        rc_, o_ = vlib.run_cmd(["coqchk", "-silent", "-o", "-Q", "theories", "PM", "-Q", "gen", "PMGen", "-Q", "props", "PMProps",
                                f"PMProps.{cid}"], cwd=vlib.COQ, timeout=3000)
        import re as _re
        m_ = _re.search(r"\* Axioms:(.*?)\n\s*\n", o_, _re.S)
        coqchk_report = {"exit": rc_, "axioms": (m_.group(1).strip() if m_ else "?")}
        if rc_ != 0 or not m_ or m_.group(1).strip() != "<none>":
            broken.append(f"coqchk on props/{cid}.vo: exit {rc_}, axioms {coqchk_report['axioms'][:300]} :: {o_[-300:]}")
    # 5. plugin: correspondence + search
    ctx = Ctx(cid, args.tier, model_ok, list(broken))
    try:
        rep = plugin.run(ctx)
    except Exception as e:  # the harness itself must never hide a problem
        traceback.print_exc()
        rep = {"failing": [], "corr_mismatch": [f"harness error {type(e).__name__}: {e}"], "stats": {}}
    failing = rep.get("failing", [])
    for m in rep.get("corr_mismatch", []):
        broken.append(f"correspondence: {m}")
    # 5a. regression corpus: the failing inputs this check reported for the independently seeded changes (seeded/<id>*/meta.json)
    #     are replayed on every run, so that a recurrence of one of those defects does not depend on the generators' luck
    #     (VERIF_NO_SEED_CORPUS=1 switches this off: tools/seedtest.py measures the generators without it)
    ncorpus = 0
    if os.environ.get("VERIF_NO_SEED_CORPUS") != "1":
        import glob
        for mp in sorted(glob.glob(os.path.join(vlib.ROOT, "seeded", cid + "-*", "meta.json"))):
            try:
                ri = json.load(open(mp)).get("check", {}).get("replay_input")
            except Exception:
                ri = None
            if not ri:
                continue
            ncorpus += 1
            try:
                r = plugin.replay(ctx, {"input": ri, "sig": [cid, "regression-corpus"]})
            except Exception as e:
                # a stored input this plugin's replay cannot read is a harness matter, not a verdict about /repo
                rep.setdefault("stats", {}).setdefault("regression_corpus_replay_errors", []).append(
                    f"{os.path.basename(os.path.dirname(mp))}: {type(e).__name__}: {str(e)[:80]}")
                r = None
            if r:
                r = dict(r)
                r["what"] = f"[regression corpus {os.path.basename(os.path.dirname(mp))}] {r.get('what')}"
                r.setdefault("input", ri)
                failing.append(r)
    rep.setdefault("stats", {})["regression_corpus_inputs_replayed"] = ncorpus
    # 5b. escalation: the correspondence broke during a quick run and the quick search found nothing -> search again with the
    #     thorough budget (a broken obligation without a failing input is still reported, but a concrete input is worth minutes)
    escalated = False
    if rep.get("corr_mismatch") and not ctx.thorough and os.environ.get("VERIF_NO_ESCALATE") != "1":
        kf0 = {json.dumps(e["sig"], sort_keys=True) for e in vlib.known_findings().get("open", []) if e["property"] == cid}
        if not [f for f in failing if json.dumps(f.get("sig"), sort_keys=True) not in kf0]:
            escalated = True
            print(f"{cid}: correspondence broken and no failing input in the quick search: searching again with the thorough budget")
            ctx2 = Ctx(cid, args.tier, model_ok, list(broken))
            ctx2.rng = random.Random(f"{cid}:{ctx.seed}:escalated")
            try:
                rep2 = plugin.run(ctx2)
                failing = failing + rep2.get("failing", [])
            except Exception:
                traceback.print_exc()

    # 6. known findings
    kf = vlib.known_findings()
    open_sigs = {}
    for e in kf.get("open", []):
        if e["property"] == cid:
            open_sigs[json.dumps(e["sig"], sort_keys=True)] = e
    new_fail, seen_known = [], {}
    for f in failing:
        key = json.dumps(f.get("sig"), sort_keys=True)
        if key in open_sigs:
            seen_known.setdefault(key, f)
        else:
            new_fail.append(f)
    # replay the recorded witnesses of open findings
    for key, e in open_sigs.items():
        if key in seen_known:
            continue
        try:
            r = plugin.replay(ctx, e["witness"])
        except Exception:
            r = None
        if r and json.dumps(r.get("sig"), sort_keys=True) == key:
            seen_known[key] = r
    for key in seen_known:
        e = open_sigs[key]
        print(f"KNOWN-FINDING: property={cid} {e['what']}")

    # 7. verdict + evidence
    stats = rep.get("stats", {})
    level = getattr(plugin, "LEVEL", "proof")
    cov = {
        "obligations": len(thms) + int(stats.get("extra_obligations", 0)),
        "discharged": discharged + int(stats.get("extra_discharged", 0)),
        "checker_cmd": f"make -C coq props/{cid}.vo (coqc 8.16.1, full .vo) + Print Assumptions on every theorem of props/{cid}.v",
        "trusted_base": TRUSTED_BASE + getattr(plugin, "TRUSTED_EXTRA", []),
        "theorems": thms,
        "axioms_per_theorem": assum,
        "broken_obligations": broken,
        "known_findings_reproduced": [open_sigs[k]["what"] for k in seen_known],
        "explanation": getattr(plugin, "EXPLANATION", ""),
        "coqchk": coqchk_report,
    }
    for k, v in stats.items():
        if k not in ("extra_obligations", "extra_discharged"):
            cov[k] = v
    cov.setdefault("evaluations", 0)
    cov.setdefault("distinct_nontrivial", 0)
    cov.setdefault("samples", [])
    nviol = len(new_fail) + (1 if (broken and not new_fail) else 0)
    vlib.write_evidence(cid, args.tier, level, cov, time.time() - t0, nviol,
                        getattr(plugin, "ASSUMPTIONS", []))
    print(f"{cid}: theorems {discharged}/{len(thms)} closed; evaluations={cov.get('evaluations')} "
          f"distinct_nontrivial={cov.get('distinct_nontrivial')} broken={len(broken)} "
          f"failing_inputs={len(new_fail)} known={len(seen_known)} wall={time.time()-t0:.1f}s")
    if new_fail:
        f = new_fail[0]
        data = {"property": cid, "kind": "failing-input", "seed": ctx.seed, "what": f.get("what"),
                "sig": f.get("sig"), "input": f.get("input"), "expected": f.get("expected"),
                "observed": f.get("observed"), "broken_obligations": broken,
                "others": [{"what": g.get("what"), "input": g.get("input")} for g in new_fail[1:6]],
                "how_to_replay": f"tools/check.py {cid} --replay <this file>"}
        p = vlib.write_replay(cid, data)
        print(f"failing input: {f.get('what')}")
        print(f"VIOLATION property={cid} replay={p}")
        sys.exit(1)
    if broken:
        data = {"property": cid, "kind": "broken-obligation", "seed": ctx.seed,
                "obligation": broken, "search": stats.get("rule"),
                "how_to_replay": f"tools/check.py {cid} --tier {args.tier}"}
        p = vlib.write_replay(cid, data)
        for b in broken:
            print("BROKEN:", b[:600])
        print(f"VIOLATION property={cid} replay={p} no-failing-input-found")
        sys.exit(1)
    sys.exit(0)


if __name__ == "__main__":
    main()
