"""Translator: analysis.py (DOMAIN, create_vector decision chain, constants used by the unary rewriting)
and relation.py (the W / L side-condition predicates) -> coq/gen/RulesGen.v.  Fail-closed."""
import ast
import translate as T

SC = {"ZERO_MWP": "O", "UNIT_MWP": "M", "WEAK_MWP": "W", "POLY_MWP": "P", "INFTY_MWP": "I"}
SCSTR = {"o": "O", "m": "M", "w": "W", "p": "P", "i": "I"}


def find_class(tree, name):
    for st in tree.body:
        if isinstance(st, ast.ClassDef) and st.name == name:
            return st
    raise T.TranslateError(f"class {name} not found")


def find_method(cls, name):
    for st in cls.body:
        if isinstance(st, ast.FunctionDef) and st.name == name:
            return st
    raise T.TranslateError(f"{cls.name}.{name} not found")


def strip_doc(body):
    return [s for s in body if not (isinstance(s, ast.Expr) and isinstance(s.value, ast.Constant) and isinstance(s.value.value, str))]


def is_name(n, s):
    return isinstance(n, ast.Name) and n.id == s


def cmp(n, left, op, right):
    return (isinstance(n, ast.Compare) and len(n.ops) == 1 and isinstance(n.ops[0], op)
            and is_name(n.left, left) and len(n.comparators) == 1 and (right(n.comparators[0])))


def scal_triple(call, what):
    # Polynomial.from_scalars(index, A, B, C)
    T.need(isinstance(call, ast.Call) and isinstance(call.func, ast.Attribute) and call.func.attr == "from_scalars"
           and is_name(call.func.value, "Polynomial") and len(call.args) == 4 and is_name(call.args[0], "index")
           and not call.keywords, f"{what}: expected Polynomial.from_scalars(index, a, b, c)")
    out = []
    for a in call.args[1:]:
        T.need(isinstance(a, ast.Name) and a.id in SC, f"{what}: scalar argument {ast.dump(a)} is not a semiring constant name")
        out.append(SC[a.id])
    return "(" + ", ".join(out) + ")"


def appends(body, what):
    """body = sequence of `vector.append(Polynomial.from_scalars(...))` -> list of triples"""
    out = []
    for st in body:
        T.need(isinstance(st, ast.Expr) and isinstance(st.value, ast.Call) and isinstance(st.value.func, ast.Attribute)
               and st.value.func.attr == "append" and is_name(st.value.func.value, "vector") and len(st.value.args) == 1,
               f"{what}: expected vector.append(...)")
        out.append(scal_triple(st.value.args[0], what))
    return out


def tr_rules():
    tree, _ = T.parse("pymwp/analysis.py")
    an = find_class(tree, "Analysis")
    # DOMAIN
    dom = None
    for st in an.body:
        if isinstance(st, ast.Assign) and len(st.targets) == 1 and is_name(st.targets[0], "DOMAIN"):
            T.need(isinstance(st.value, ast.List) and all(isinstance(e, ast.Constant) and isinstance(e.value, int) and e.value >= 0 for e in st.value.elts),
                   "Analysis.DOMAIN is not a list of naturals")
            dom = [e.value for e in st.value.elts]
    T.need(dom is not None, "Analysis.DOMAIN not found")

    cv = find_method(an, "create_vector")
    T.need([a.arg for a in cv.args.args] == ["index", "op", "variables"], "create_vector: parameters changed")
    body = strip_doc(cv.body)
    T.need(len(body) == 6, f"create_vector: expected 6 statements, found {len(body)}")
    a0, a1, a2, i1, i2, ret = body
    T.need(isinstance(a0, ast.Assert) and cmp(a0.test, "op", ast.In, lambda r: isinstance(r, ast.Attribute) and r.attr == "BIN_OPS"),
           "create_vector: first statement is not `assert op in Coverage.BIN_OPS`")
    T.need(isinstance(a1, ast.Assign) and isinstance(a1.targets[0], ast.Tuple) and [e.id for e in a1.targets[0].elts] == ["x", "y", "z"]
           and is_name(a1.value, "variables"), "create_vector: `x, y, z = variables` expected")
    T.need(isinstance(a2, ast.Assign) and is_name(a2.targets[0], "vector") and isinstance(a2.value, ast.List) and not a2.value.elts,
           "create_vector: `vector = []` expected")
    # if x != y and x != z: vector.append(Polynomial(ZERO_MWP))
    t = i1.test
    T.need(isinstance(i1, ast.If) and not i1.orelse and isinstance(t, ast.BoolOp) and isinstance(t.op, ast.And) and len(t.values) == 2
           and cmp(t.values[0], "x", ast.NotEq, lambda r: is_name(r, "y")) and cmp(t.values[1], "x", ast.NotEq, lambda r: is_name(r, "z")),
           "create_vector: `if x != y and x != z:` expected")
    T.need(len(i1.body) == 1 and isinstance(i1.body[0], ast.Expr) and isinstance(i1.body[0].value, ast.Call)
           and i1.body[0].value.func.attr == "append" and isinstance(i1.body[0].value.args[0], ast.Call)
           and is_name(i1.body[0].value.args[0].func, "Polynomial") and len(i1.body[0].value.args[0].args) == 1
           and is_name(i1.body[0].value.args[0].args[0], "ZERO_MWP"),
           "create_vector: prepended polynomial is not Polynomial(ZERO_MWP)")

    # the if / elif chain
    rows = []
    node = i2
    def op_cond(n):
        # op == '*'   or   op in {'+', '-'}
        if cmp(n, "op", ast.Eq, lambda r: isinstance(r, ast.Constant) and isinstance(r.value, str)):
            return [n.comparators[0].value]
        if cmp(n, "op", ast.In, lambda r: isinstance(r, ast.Set) and all(isinstance(e, ast.Constant) and isinstance(e.value, str) for e in r.elts)):
            return sorted(e.value for e in n.comparators[0].elts)
        raise T.TranslateError("create_vector: unrecognised operator test " + ast.dump(n))
    first = True
    while node is not None:
        T.need(isinstance(node, ast.If), "create_vector: if/elif chain expected")
        t = node.test
        if first:
            T.need(isinstance(t, ast.BoolOp) and isinstance(t.op, ast.Or) and len(t.values) == 2
                   and cmp(t.values[0], "y", ast.Is, lambda r: isinstance(r, ast.Constant) and r.value is None)
                   and cmp(t.values[1], "z", ast.Is, lambda r: isinstance(r, ast.Constant) and r.value is None),
                   "create_vector: first test is not `y is None or z is None`")
            rows.append(("CvConst", [], appends(node.body, "create_vector const case")))
            first = False
        else:
            T.need(isinstance(t, ast.BoolOp) and isinstance(t.op, ast.And) and len(t.values) == 2, "create_vector: `op-test and y ==/!= z` expected")
            ops = op_cond(t.values[0])
            if cmp(t.values[1], "y", ast.Eq, lambda r: is_name(r, "z")):
                kind = "CvEq"
            elif cmp(t.values[1], "y", ast.NotEq, lambda r: is_name(r, "z")):
                kind = "CvNe"
            else:
                raise T.TranslateError("create_vector: operand test is not y == z / y != z")
            rows.append((kind, ops, appends(node.body, "create_vector " + kind)))
        if not node.orelse:
            node = None
        else:
            T.need(len(node.orelse) == 1, "create_vector: else-branch with several statements")
            node = node.orelse[0]
    # return index + 1, vector
    T.need(isinstance(ret, ast.Return) and isinstance(ret.value, ast.Tuple) and len(ret.value.elts) == 2
           and isinstance(ret.value.elts[0], ast.BinOp) and isinstance(ret.value.elts[0].op, ast.Add) and is_name(ret.value.elts[0].left, "index")
           and isinstance(ret.value.elts[0].right, ast.Constant) and ret.value.elts[0].right.value == 1 and is_name(ret.value.elts[1], "vector"),
           "create_vector: `return index + 1, vector` expected")

    # W / L predicates in relation.py
    rtree, _ = T.parse("pymwp/relation.py")
    rel = find_class(rtree, "Relation")

    def scalar_cmp(n, op):
        return (isinstance(n, ast.Compare) and len(n.ops) == 1 and isinstance(n.ops[0], op) and isinstance(n.left, ast.Attribute)
                and n.left.attr == "scalar" and is_name(n.left.value, "mon") and isinstance(n.comparators[0], ast.Constant)
                and n.comparators[0].value in SCSTR)

    def diag(n):
        return cmp(n, "i", ast.Eq, lambda r: is_name(r, "j"))

    def pred(n):
        """boolean expression over mon.scalar / i == j -> Coq term over (s : Sc) (d : bool)"""
        if scalar_cmp(n, ast.Eq):
            return f"(sc_eqb s {SCSTR[n.comparators[0].value]})"
        if scalar_cmp(n, ast.NotEq):
            return f"(negb (sc_eqb s {SCSTR[n.comparators[0].value]}))"
        if diag(n):
            return "d"
        if isinstance(n, ast.BoolOp):
            op = " && " if isinstance(n.op, ast.And) else " || "
            return "(" + op.join(pred(v) for v in n.values) + ")"
        raise T.TranslateError("side condition: unrecognised expression " + ast.dump(n))

    def first_if(fn):
        for n in ast.walk(fn):
            if isinstance(n, ast.For) and is_name(n.target, "mon"):
                ifs = [s for s in n.body if isinstance(s, ast.If)]
                return n, ifs
        raise T.TranslateError(f"{fn.name}: `for mon in poly.list` not found")

    wc = find_method(rel, "while_correction")
    _, ifs = first_if(wc)
    T.need(len(ifs) == 1, "while_correction: exactly one if expected in the monomial loop")
    w_pred = pred(ifs[0].test)
    lc = find_method(rel, "loop_correction")
    _, ifs = first_if(lc)
    T.need(len(ifs) == 2, "loop_correction: exactly two ifs expected in the monomial loop")
    l_pred = pred(ifs[0].test)
    l_prop = pred(ifs[1].test)
    # apply_choice least scalar
    ac = find_method(rel, "apply_choice")
    least = None
    for n in ast.walk(ac):
        if isinstance(n, ast.keyword) and n.arg == "least_scalar":
            T.need(isinstance(n.value, ast.Name) and n.value.id in SC, "apply_choice: least_scalar is not a plain semiring constant")
            least = SC[n.value.id]
    T.need(least is not None, "apply_choice: least_scalar keyword not found")

    def ops_list(ops):
        return T.coq_list([T.coq_str(o) for o in ops])

    out = ["(* GENERATED by tools/translators/rules.py from pymwp/analysis.py and pymwp/relation.py -- do not edit *)",
           "From Coq Require Import String List Bool.", "From PM Require Import Semiring.", "Import ListNotations.", "",
           "Inductive cv_cond := CvConst | CvEq | CvNe.",
           f"Definition DOMAIN : list nat := {T.coq_list([str(d) for d in dom])}.",
           "(* create_vector: rows tried in order; (condition kind, operators it applies to, scalar triples appended) *)",
           "Definition CV_TABLE : list (cv_cond * list string * list (Sc * Sc * Sc)) :=",
           "  " + T.coq_list(["(%s, %s, %s)" % (k, ops_list(ops), T.coq_list(tr)) for k, ops, tr in rows]) + ".",
           "(* prepend Polynomial(ZERO_MWP) iff x != y and x != z *)",
           "Definition CV_PREPEND_ZERO_WHEN_TARGET_NOT_OPERAND : bool := true.",
           f"Definition W_BAD (s : Sc) (d : bool) : bool := {w_pred}.",
           f"Definition L_BAD (s : Sc) (d : bool) : bool := {l_pred}.",
           f"Definition L_PROPAGATE (s : Sc) (d : bool) : bool := {l_prop}.",
           f"Definition APPLY_CHOICE_LEAST : Sc := {least}.", ""]
    return {"RulesGen.v": "\n".join(out)}


TRANSLATORS = {"rules": tr_rules}
