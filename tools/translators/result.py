"""Translator: pymwp/result.py -> coq/gen/ResultGen.v.  Fail-closed.

For every subclass of Serializable (Program, FuncResult, FuncLoops, LoopResult, VResult, Result):
  * the lists returned by the properties `_attrs`, `_ser_attrs`, `_ser_list`, `_ser_dict`
    (list literals, or the `'a,b,c'.split(',')` form, evaluated with Python's own str.split);
    a class that does not define one inherits Serializable's `return []` (checked);
  * the constructor: parameters with their defaults, and the body as a table
    attribute -> (parameter | `parameter or []` | literal | [] | {} | Cls()), `super().__init__()`
    expanded to Timeable.__init__ when Timeable is a base;
  * which classes override to_dict / have a from_dict other than
    `return Serializable._load(Cls(), **kwargs)` (the model hand-writes exactly those overrides: the
    translator refuses any other set).
Anything of another shape raises TranslateError naming the construct."""
import ast
import translate as T

PROPS = ("_attrs", "_ser_attrs", "_ser_list", "_ser_dict")
# overrides the hand-written model (coq/theories/Result.v) implements
MODELLED_TO_DICT = ["FuncResult", "VResult"]
MODELLED_FROM_DICT = ["FuncResult", "VResult"]


def strip_doc(body):
    return [s for s in body if not (isinstance(s, ast.Expr) and isinstance(s.value, ast.Constant)
                                    and isinstance(s.value.value, str))]


def methods(cls):
    out = {}
    for st in cls.body:
        if isinstance(st, ast.FunctionDef):
            out.setdefault(st.name, []).append(st)
    return out


def deco_names(fn):
    out = []
    for d in fn.decorator_list:
        if isinstance(d, ast.Name):
            out.append(d.id)
        elif isinstance(d, ast.Attribute) and isinstance(d.value, ast.Name):
            out.append(d.value.id + "." + d.attr)
        else:
            raise T.TranslateError(f"{fn.name}: unrecognised decorator {ast.dump(d)}")
    return out


def single_return(fn, what):
    body = strip_doc(fn.body)
    T.need(len(body) == 1 and isinstance(body[0], ast.Return) and body[0].value is not None,
           f"{what}: body is not a single `return <expr>`")
    return body[0].value


def str_const(n, what):
    T.need(isinstance(n, ast.Constant) and isinstance(n.value, str), f"{what}: string constant expected, got {ast.dump(n)}")
    return n.value


def attr_list(expr, what):
    """['a', 'b']  or  'a,b'.split(',')"""
    if isinstance(expr, ast.List):
        return [str_const(e, what) for e in expr.elts]
    if (isinstance(expr, ast.Call) and isinstance(expr.func, ast.Attribute) and expr.func.attr == "split"
            and isinstance(expr.func.value, ast.Constant) and isinstance(expr.func.value.value, str)
            and len(expr.args) == 1 and not expr.keywords):
        sep = str_const(expr.args[0], what)
        T.need(len(sep) > 0, f"{what}: empty separator")
        return expr.func.value.value.split(sep)
    raise T.TranslateError(f"{what}: neither a list literal nor '<text>'.split('<sep>'): {ast.dump(expr)}")


def tuple_list(expr, what, shape, classes):
    """[('attr', Cls)] (shape 'sc') or [('attr', 'key', Cls)] (shape 'ssc')"""
    T.need(isinstance(expr, ast.List), f"{what}: list literal expected")
    out = []
    for e in expr.elts:
        T.need(isinstance(e, ast.Tuple) and len(e.elts) == len(shape), f"{what}: {len(shape)}-tuple expected, got {ast.dump(e)}")
        row = []
        for kind, x in zip(shape, e.elts):
            if kind == "s":
                row.append(str_const(x, what))
            else:
                T.need(isinstance(x, ast.Name) and x.id in classes, f"{what}: class name of a Serializable expected, got {ast.dump(x)}")
                row.append(x.id)
        out.append(tuple(row))
    return out


def lit_of(n, what):
    T.need(isinstance(n, ast.Constant) or (isinstance(n, ast.UnaryOp) and isinstance(n.op, ast.USub)
                                            and isinstance(n.operand, ast.Constant)
                                            and type(n.operand.value) is int),
           f"{what}: literal expected, got {ast.dump(n)}")
    if isinstance(n, ast.UnaryOp):
        return ("int", -n.operand.value)
    v = n.value
    if v is None:
        return ("none",)
    if v is True or v is False:
        return ("bool", v)
    if type(v) is int:
        return ("int", v)
    if type(v) is str:
        return ("str", v)
    raise T.TranslateError(f"{what}: unsupported literal {v!r}")


def coq_lit(l):
    if l[0] == "none":
        return "LNone"
    if l[0] == "bool":
        return f"(LBool {'true' if l[1] else 'false'})"
    if l[0] == "int":
        return f"(LInt ({l[1]})%Z)"
    if l[0] == "str":
        return f"(LStr {T.coq_str(l[1])})"
    if l[0] == "required":
        return "LRequired"
    raise T.TranslateError(f"literal {l}")


def is_self_attr(t):
    return isinstance(t, ast.Attribute) and isinstance(t.value, ast.Name) and t.value.id == "self"


def init_table(cls, by_name, classes, what):
    """(params [(name, lit)], body [(attr, coq iexp)]) of cls.__init__; () if the class has none."""
    ms = methods(cls)
    T.need(len(ms.get("__init__", [])) == 1, f"{what}: exactly one __init__ expected")
    fn = ms["__init__"][0]
    a = fn.args
    T.need(not a.vararg and not a.kwarg and not a.kwonlyargs and not a.posonlyargs, f"{what}.__init__: only plain parameters are understood")
    names = [x.arg for x in a.args]
    T.need(names and names[0] == "self", f"{what}.__init__: first parameter is not self")
    names = names[1:]
    defaults = [None] * (len(names) - len(a.defaults)) + list(a.defaults)
    params = []
    for n, d in zip(names, defaults):
        params.append((n, ("required",) if d is None else lit_of(d, f"{what}.__init__ default of {n}")))
    body = []
    for st in strip_doc(fn.body):
        if (isinstance(st, ast.Expr) and isinstance(st.value, ast.Call) and isinstance(st.value.func, ast.Attribute)
                and st.value.func.attr == "__init__" and isinstance(st.value.func.value, ast.Call)
                and isinstance(st.value.func.value.func, ast.Name) and st.value.func.value.func.id == "super"
                and not st.value.func.value.args and not st.value.args and not st.value.keywords):
            # super().__init__(): the first base (in MRO order) that defines __init__
            hit = None
            for b in cls.bases:
                T.need(isinstance(b, ast.Name), f"{what}: base class expression {ast.dump(b)}")
                if b.id in by_name and "__init__" in methods(by_name[b.id]):
                    hit = b.id
                    break
                T.need(b.id in by_name or b.id == "ABC", f"{what}: unknown base {b.id}")
            T.need(hit is not None, f"{what}: super().__init__() resolves to no class of result.py")
            p2, b2 = init_table(by_name[hit], by_name, classes, hit)
            T.need(not p2, f"{hit}.__init__ takes parameters but is called without")
            body += b2
            continue
        if isinstance(st, ast.AnnAssign) and st.value is not None and st.simple == 0 and is_self_attr(st.target):
            tgt, val = st.target.attr, st.value
        elif isinstance(st, ast.Assign) and len(st.targets) == 1 and is_self_attr(st.targets[0]):
            tgt, val = st.targets[0].attr, st.value
        else:
            raise T.TranslateError(f"{what}.__init__: statement is not `self.attr = ...` / super().__init__(): {ast.dump(st)[:200]}")
        if isinstance(val, ast.Name):
            T.need(val.id in names, f"{what}.__init__: `self.{tgt} = {val.id}` is not a parameter")
            e = f"(IParam {T.coq_str(val.id)})"
        elif (isinstance(val, ast.BoolOp) and isinstance(val.op, ast.Or) and len(val.values) == 2
              and isinstance(val.values[0], ast.Name) and val.values[0].id in names
              and isinstance(val.values[1], ast.List) and not val.values[1].elts):
            e = f"(IParamOrList {T.coq_str(val.values[0].id)})"
        elif isinstance(val, ast.List) and not val.elts:
            e = "IEmptyList"
        elif isinstance(val, ast.Dict) and not val.keys:
            e = "IEmptyDict"
        elif (isinstance(val, ast.Call) and isinstance(val.func, ast.Name) and val.func.id in classes
              and not val.args and not val.keywords):
            e = f"(INew {T.coq_str(val.func.id)})"
        else:
            e = f"(ILit {coq_lit(lit_of(val, f'{what}.__init__: value of self.{tgt}'))})"
        body.append((tgt, e))
    return params, body


def plain_from_dict(fn, cname):
    """`return Serializable._load(Cls(), **kwargs)` with signature (**kwargs)"""
    a = fn.args
    if a.args or a.vararg or a.kwonlyargs or a.posonlyargs or a.kwarg is None or a.kwarg.arg != "kwargs":
        return False
    body = strip_doc(fn.body)
    if len(body) != 1 or not isinstance(body[0], ast.Return):
        return False
    c = body[0].value
    return (isinstance(c, ast.Call) and isinstance(c.func, ast.Attribute) and c.func.attr == "_load"
            and isinstance(c.func.value, ast.Name) and c.func.value.id == "Serializable"
            and len(c.args) == 1 and isinstance(c.args[0], ast.Call) and isinstance(c.args[0].func, ast.Name)
            and c.args[0].func.id == cname and not c.args[0].args and not c.args[0].keywords
            and len(c.keywords) == 1 and c.keywords[0].arg is None and isinstance(c.keywords[0].value, ast.Name)
            and c.keywords[0].value.id == "kwargs")


def tr_result():
    tree, _ = T.parse("pymwp/result.py")
    by_name = {st.name: st for st in tree.body if isinstance(st, ast.ClassDef)}
    T.need("Serializable" in by_name and "Timeable" in by_name, "result.py: Serializable / Timeable not found")
    ser = by_name["Serializable"]
    # the inherited defaults are `return []`
    sm = methods(ser)
    for p in PROPS:
        T.need(len(sm.get(p, [])) == 1 and deco_names(sm[p][0]) == ["property"], f"Serializable.{p}: one @property expected")
        r = single_return(sm[p][0], f"Serializable.{p}")
        T.need(isinstance(r, ast.List) and not r.elts, f"Serializable.{p}: default is not `return []`")
    for need in ("to_dict", "_load", "_try_set", "_try_get", "from_dict"):
        T.need(need in sm, f"Serializable.{need} missing")
    tm = methods(by_name["Timeable"])
    for p in PROPS + ("to_dict", "from_dict"):
        T.need(p not in tm, f"Timeable defines {p}")

    classes = []
    for st in tree.body:
        if isinstance(st, ast.ClassDef) and st.name != "Serializable":
            bases = []
            for b in st.bases:
                T.need(isinstance(b, ast.Name), f"class {st.name}: base expression {ast.dump(b)}")
                bases.append(b.id)
            if "Serializable" in bases:
                T.need(set(bases) <= {"Serializable", "Timeable"}, f"class {st.name}: unexpected bases {bases}")
                classes.append(st.name)
            else:
                T.need(not (set(bases) & set(classes)), f"class {st.name} derives from a Serializable subclass")
    T.need(classes, "no Serializable subclass found")

    tabs, custom_to, custom_from = [], [], []
    for cname in classes:
        cls = by_name[cname]
        ms = methods(cls)
        vals = {}
        for p in PROPS:
            if p not in ms:
                vals[p] = []
                continue
            T.need(len(ms[p]) == 1 and deco_names(ms[p][0]) == ["property"], f"{cname}.{p}: one @property expected")
            r = single_return(ms[p][0], f"{cname}.{p}")
            if p == "_attrs":
                vals[p] = attr_list(r, f"{cname}.{p}")
            elif p == "_ser_dict":
                vals[p] = tuple_list(r, f"{cname}.{p}", "ssc", classes)
            else:
                vals[p] = tuple_list(r, f"{cname}.{p}", "sc", classes)
        params, body = init_table(cls, by_name, classes, cname)
        if "to_dict" in ms:
            custom_to.append(cname)
        T.need(len(ms.get("from_dict", [])) == 1 and "staticmethod" in deco_names(ms["from_dict"][0]),
               f"{cname}.from_dict: one @staticmethod expected")
        if not plain_from_dict(ms["from_dict"][0], cname):
            custom_from.append(cname)
        for forbidden in ("_load", "_try_set", "_try_get", "__getattribute__", "__getattr__", "__setattr__"):
            T.need(forbidden not in ms, f"{cname} overrides {forbidden}")
        tabs.append((cname, vals, params, body))
    T.need(custom_to == MODELLED_TO_DICT, f"classes overriding to_dict are {custom_to}, the model implements {MODELLED_TO_DICT}")
    T.need(custom_from == MODELLED_FROM_DICT,
           f"classes with a non-generic from_dict are {custom_from}, the model implements {MODELLED_FROM_DICT}")

    q = T.coq_str
    out = ["(* GENERATED by tools/translators/result.py from pymwp/result.py -- do not edit *)",
           "From Coq Require Import String List ZArith.", "Import ListNotations.", "Open Scope string_scope.", "",
           "(* constructor parameter defaults / literals *)",
           "Inductive lit := LNone | LBool (b : bool) | LInt (z : Z) | LStr (s : string) | LRequired.",
           "(* right-hand sides of `self.attr = ...` in __init__ *)",
           "Inductive iexp := IParam (p : string) | IParamOrList (p : string) | ILit (l : lit)",
           "  | IEmptyList | IEmptyDict | INew (cls : string).",
           "Record ktab := mkK {",
           "  k_name : string;",
           "  k_attrs : list string;                         (* _attrs *)",
           "  k_ser_attrs : list (string * string);          (* _ser_attrs: (attribute, class) *)",
           "  k_ser_list : list (string * string);           (* _ser_list: (attribute, class) *)",
           "  k_ser_dict : list (string * string * string);  (* _ser_dict: (attribute, key attribute, class) *)",
           "  k_params : list (string * lit);                (* __init__ parameters and defaults *)",
           "  k_init : list (string * iexp) }.               (* __init__ body, in order *)", ""]
    for cname, vals, params, body in tabs:
        out.append(f"Definition {cname}_attrs : list string := {T.coq_list([q(a) for a in vals['_attrs']])}.")
        out.append(f"Definition {cname}_ser_attrs : list (string * string) := "
                   + T.coq_list([f"({q(a)}, {q(c)})" for a, c in vals['_ser_attrs']]) + ".")
        out.append(f"Definition {cname}_ser_list : list (string * string) := "
                   + T.coq_list([f"({q(a)}, {q(c)})" for a, c in vals['_ser_list']]) + ".")
        out.append(f"Definition {cname}_ser_dict : list (string * string * string) := "
                   + T.coq_list([f"({q(a)}, {q(k)}, {q(c)})" for a, k, c in vals['_ser_dict']]) + ".")
        out.append(f"Definition {cname}_params : list (string * lit) := "
                   + T.coq_list([f"({q(n)}, {coq_lit(l)})" for n, l in params]) + ".")
        out.append(f"Definition {cname}_init : list (string * iexp) :=\n  "
                   + T.coq_list([f"({q(a)}, {e})" for a, e in body]) + ".")
        out.append(f"Definition {cname}_tab : ktab := mkK {q(cname)} {cname}_attrs {cname}_ser_attrs {cname}_ser_list "
                   f"{cname}_ser_dict {cname}_params {cname}_init.")
        out.append("")
    out.append("Definition CLASS_TABLES : list ktab := " + T.coq_list([f"{c}_tab" for c in classes]) + ".")
    out.append("(* classes whose to_dict / from_dict is not the inherited / generic one (hand-modelled) *)")
    out.append("Definition CUSTOM_TO_DICT : list string := " + T.coq_list([q(c) for c in custom_to]) + ".")
    out.append("Definition CUSTOM_FROM_DICT : list string := " + T.coq_list([q(c) for c in custom_from]) + ".")
    out.append("")
    return {"ResultGen.v": "\n".join(out)}


TRANSLATORS = {"result": tr_result}
