#!/venv/bin/python
"""Confirm a seeded mutation and run the property's check against it.
usage: tools/seedtest.py <Cxx> <dir with patch.diff demo.py meta.json> <seed-name> [--tier quick]
Everything happens on a scratch copy of /repo (removed afterwards); the check is pointed at the copy with
PYMWP_REPO. On success the mutation is stored under /verif/seeded/<seed-name>/ with the outcome."""
import json
import os
import shutil
import subprocess
import sys
import tempfile

ROOT = os.path.dirname(os.path.dirname(os.path.abspath(__file__)))


def sh(cmd, cwd=None, env=None, timeout=3600):
    e = dict(os.environ)
    if env:
        e.update(env)
    p = subprocess.run(cmd, cwd=cwd, env=e, stdout=subprocess.PIPE, stderr=subprocess.STDOUT, text=True, timeout=timeout)
    return p.returncode, p.stdout


def main():
    cid, src, name = sys.argv[1], sys.argv[2], sys.argv[3]
    tier = sys.argv[5] if len(sys.argv) > 5 and sys.argv[4] == "--tier" else "quick"
    work = tempfile.mkdtemp(prefix="mutrepo_seed_")
    tree = os.path.join(work, "repo")
    out = {"property": cid, "seed": name}
    try:
        shutil.copytree("/repo", tree, ignore=shutil.ignore_patterns(".git", "__pycache__", ".pytest_cache"))
        demo = os.path.join(src, "demo.py")
        rc0, _ = sh(["/venv/bin/python", demo], cwd=work, env={"PYTHONPATH": tree})
        out["demo_passes_without"] = (rc0 == 0)
        rc, o = sh(["patch", "-p1", "-i", os.path.abspath(os.path.join(src, "patch.diff"))], cwd=tree)
        out["patch_applies"] = (rc == 0)
        if rc != 0:
            print(o)
        rc, o = sh(["/venv/bin/python", "-m", "pytest", "-q", "-p", "no:cacheprovider", "-x"], cwd=tree, env={"PYTHONPATH": tree})
        out["tests_pass_with"] = (rc == 0)
        out["tests_tail"] = o.strip().split("\n")[-1]
        rc1, _ = sh(["/venv/bin/python", demo], cwd=work, env={"PYTHONPATH": tree})
        out["demo_fails_with"] = (rc1 != 0)
        coqcopy = os.path.join(work, "coq")
        shutil.copytree(os.path.join(ROOT, "coq"), coqcopy, ignore=shutil.ignore_patterns("corr", "*.aux", "*.glob", ".lia.cache", ".nia.cache"))
        envx = {"PYMWP_REPO": tree, "VERIF_COQ_DIR": coqcopy, "VERIF_EVID_DIR": os.path.join(work, "evidence"),
                "VERIF_REPLAY_DIR": os.path.join(work, "replays"), "VERIF_NO_SEED_CORPUS": "1"}
        rc, o = sh(["/venv/bin/python", os.path.join(ROOT, "tools", "check.py"), cid, "--tier", tier], cwd=ROOT, env=envx)
        # keep the replay file of the detection as part of the record
        rp = os.path.join(work, "replays", cid)
        out["replay"] = None
        if os.path.isdir(rp) and os.listdir(rp):
            out["replay"] = json.load(open(os.path.join(rp, sorted(os.listdir(rp))[0])))
        lines = [l for l in o.split("\n") if "VIOLATION" in l or l.startswith("failing input") or l.startswith("BROKEN") or "theorems" in l]
        out["check_exit"] = rc
        out["check_lines"] = [l[:300] for l in lines[:8]]
        out["detected"] = (rc != 0 and any("VIOLATION" in l for l in lines))
        out["with_failing_input"] = out["detected"] and not any("no-failing-input-found" in l for l in lines)
    finally:
        shutil.rmtree(work, ignore_errors=True)
    confirmed = out.get("demo_passes_without") and out.get("patch_applies") and out.get("tests_pass_with") and out.get("demo_fails_with")
    out["confirmed"] = bool(confirmed)
    print(json.dumps(out, indent=1))
    if confirmed:
        dst = os.path.join(ROOT, "seeded", name)
        os.makedirs(dst, exist_ok=True)
        for f in ("patch.diff", "demo.py"):
            shutil.copy(os.path.join(src, f), os.path.join(dst, f))
        meta = {}
        mp = os.path.join(src, "meta.json")
        if os.path.exists(mp):
            try:
                meta = json.load(open(mp))
            except Exception:
                meta = {"raw": open(mp).read()}
        meta.update({"verified": {k: out[k] for k in ("demo_passes_without", "tests_pass_with", "demo_fails_with", "tests_tail")},
                     "check": {"command": f"PYMWP_REPO=<copy of /repo with patch.diff applied> /venv/bin/python tools/check.py {cid} --tier {tier}",
                               "detected": out["detected"], "with_failing_input": out["with_failing_input"], "lines": out["check_lines"],
                               "replay_what": (out.get("replay") or {}).get("what"), "replay_input": (out.get("replay") or {}).get("input")}})
        json.dump(meta, open(os.path.join(dst, "meta.json"), "w"), indent=1)


if __name__ == "__main__":
    main()
