#!/usr/bin/env python3
"""Fail-closed translators: /repo sources -> /verif/coq/gen/*.v (run on every check).

Every translator pattern-matches the exact AST shape it understands and raises
TranslateError (naming the construct) on anything else.  Output files are only
rewritten when their content changes, so `make` rebuilds exactly what depends
on an edited table.
"""
import ast
import os
import sys

REPO = os.environ.get("PYMWP_REPO", "/repo")
GEN = os.path.join(os.environ.get("VERIF_COQ_DIR") or os.path.join(os.path.dirname(os.path.abspath(__file__)), "..", "coq"), "gen")


class TranslateError(Exception):
    pass


def need(cond, msg):
    if not cond:
        raise TranslateError(msg)


def coq_str(s):
    need(isinstance(s, str), f"string literal expected, got {s!r}")
    need(all(32 <= ord(c) < 127 for c in s), f"non printable-ascii string {s!r}")
    return '"' + s.replace('"', '""') + '"'


def coq_list(items):
    return "[" + "; ".join(items) + "]"


def write_if_changed(path, text):
    old = None
    if os.path.exists(path):
        with open(path) as f:
            old = f.read()
    if old != text:
        with open(path, "w") as f:
            f.write(text)
        return True
    return False


def parse(relpath):
    p = os.path.join(REPO, relpath)
    with open(p) as f:
        src = f.read()
    return ast.parse(src, filename=p), src


def module_assigns(tree):
    """name -> value node for simple top-level (annotated) assignments."""
    out = {}
    for st in tree.body:
        if isinstance(st, ast.Assign) and len(st.targets) == 1 and isinstance(st.targets[0], ast.Name):
            out[st.targets[0].id] = st.value
        elif isinstance(st, ast.AnnAssign) and isinstance(st.target, ast.Name) and st.value is not None:
            out[st.target.id] = st.value
    return out


def const_str(node, env, what):
    if isinstance(node, ast.Constant) and isinstance(node.value, str):
        return node.value
    if isinstance(node, ast.Name) and node.id in env:
        return const_str(env[node.id], env, what)
    raise TranslateError(f"{what}: expected a string constant, got {ast.dump(node)}")


# --------------------------------------------------------------------------
# semiring.py
# --------------------------------------------------------------------------

def tr_semiring():
    tree, _ = parse("pymwp/semiring.py")
    env = module_assigns(tree)
    for k in ("ZERO_MWP", "UNIT_MWP", "WEAK_MWP", "POLY_MWP", "INFTY_MWP", "KEYS",
              "__DICT_PROD", "__DICT_SUM"):
        need(k in env, f"semiring.py: missing top-level {k}")
    consts = {k: const_str(env[k], env, k) for k in
              ("ZERO_MWP", "UNIT_MWP", "WEAK_MWP", "POLY_MWP", "INFTY_MWP")}
    need(isinstance(env["KEYS"], ast.List), "semiring.py: KEYS is not a list literal")
    keys = [const_str(e, env, "KEYS element") for e in env["KEYS"].elts]

    def table(name):
        d = env[name]
        need(isinstance(d, ast.Dict), f"semiring.py: {name} is not a dict literal")
        rows = []
        for k, v in zip(d.keys, d.values):
            need(k is not None, f"{name}: ** unpacking")
            need(isinstance(v, ast.Dict), f"{name}: row is not a dict literal")
            row = []
            for k2, v2 in zip(v.keys, v.values):
                need(k2 is not None, f"{name}: ** unpacking in row")
                row.append((const_str(k2, env, name), const_str(v2, env, name)))
            # Python dict literal semantics: a repeated key keeps the LAST value
            row = list(dict(row).items())
            rows.append((const_str(k, env, name), row))
        return list(dict(rows).items())

    prod = table("__DICT_PROD")
    summ = table("__DICT_SUM")

    # guard shape of prod_mwp / sum_mwp
    funs = {f.name: f for f in tree.body if isinstance(f, ast.FunctionDef)}

    def guard(fname, dname):
        need(fname in funs, f"semiring.py: missing def {fname}")
        f = funs[fname]
        args = [a.arg for a in f.args.args]
        need(len(args) == 2 and not f.args.vararg and not f.args.kwarg and not f.args.defaults,
             f"{fname}: expected exactly two positional parameters")
        body = [s for s in f.body if not (isinstance(s, ast.Expr) and isinstance(s.value, ast.Constant))]
        need(len(body) == 1 and isinstance(body[0], ast.If), f"{fname}: body is not a single if")
        iff = body[0]
        t = iff.test
        ok = (isinstance(t, ast.BoolOp) and isinstance(t.op, ast.And) and len(t.values) == 2)
        need(ok, f"{fname}: guard is not `a in KEYS and b in KEYS`")
        for v, a in zip(t.values, args):
            need(isinstance(v, ast.Compare) and len(v.ops) == 1 and isinstance(v.ops[0], ast.In)
                 and isinstance(v.left, ast.Name) and v.left.id == a
                 and isinstance(v.comparators[0], ast.Name) and v.comparators[0].id == "KEYS",
                 f"{fname}: guard conjunct is not `{a} in KEYS`")
        need(len(iff.body) == 1 and isinstance(iff.body[0], ast.Return), f"{fname}: then-branch is not a return")
        r = iff.body[0].value
        need(isinstance(r, ast.Subscript) and isinstance(r.value, ast.Subscript)
             and isinstance(r.value.value, ast.Name) and r.value.value.id == dname
             and isinstance(r.value.slice, ast.Name) and r.value.slice.id == args[0]
             and isinstance(r.slice, ast.Name) and r.slice.id == args[1],
             f"{fname}: then-branch is not `return {dname}[{args[0]}][{args[1]}]`")
        need(len(iff.orelse) == 1 and isinstance(iff.orelse[0], ast.Raise), f"{fname}: else-branch is not a raise")

    guard("prod_mwp", "__DICT_PROD")
    guard("sum_mwp", "__DICT_SUM")

    # mwp_sort: sorted(scalars, key=lambda x: KEYS.index(x)) -- order is KEYS position
    def tab(rows):
        return coq_list(["(" + coq_str(k) + ", " + coq_list(["(" + coq_str(a) + ", " + coq_str(b) + ")" for a, b in row]) + ")"
                         for k, row in rows])

    out = ["(* GENERATED by tools/translate.py from pymwp/semiring.py -- do not edit *)",
           "From Coq Require Import String List.", "Import ListNotations.", "Open Scope string_scope.", ""]
    for k, v in consts.items():
        out.append(f"Definition {k} : string := {coq_str(v)}.")
    out.append(f"Definition KEYS : list string := {coq_list([coq_str(k) for k in keys])}.")
    out.append(f"Definition DICT_PROD : list (string * list (string * string)) :=\n  {tab(prod)}.")
    out.append(f"Definition DICT_SUM : list (string * list (string * string)) :=\n  {tab(summ)}.")
    out.append("(* guard shape checked by the translator: `if a in KEYS and b in KEYS: return D[a][b] else: raise` *)")
    out.append("")
    return {"SemiringGen.v": "\n".join(out)}


TRANSLATORS = {"semiring": tr_semiring}


def _discover():
    """Additional translators live in tools/translators/<name>.py, each exposing
    TRANSLATORS = {name: fn() -> {gen_file_name: text}} and using the helpers of this module."""
    import importlib
    d = os.path.join(os.path.dirname(os.path.abspath(__file__)), "translators")
    sys.path.insert(0, os.path.dirname(os.path.abspath(__file__)))
    for f in sorted(os.listdir(d)):
        if f.endswith(".py") and f != "__init__.py":
            m = importlib.import_module("translators." + f[:-3])
            for k, fn in m.TRANSLATORS.items():
                TRANSLATORS.setdefault(k, fn)


def run(which=None):
    """Return (written files dict, errors dict translator->message)."""
    os.makedirs(GEN, exist_ok=True)
    _discover()
    errors, changed = {}, []
    for name, fn in TRANSLATORS.items():
        if which and name not in which:
            continue
        try:
            files = fn()
        except Exception as e:   # fail closed: anything unexpected is a translator failure
            errors[name] = f"{type(e).__name__}: {e}"
            continue
        for fname, text in files.items():
            if write_if_changed(os.path.join(GEN, fname), text):
                changed.append(fname)
    return changed, errors


if __name__ == "__main__":
    ch, errs = run(sys.argv[1:] or None)
    print("changed:", ch)
    for k, v in errs.items():
        print("TRANSLATE-ERROR", k, v)
    sys.exit(1 if errs else 0)
