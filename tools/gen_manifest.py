#!/venv/bin/python
"""Regenerates MANIFEST.json from tools/props/*.py (claimed checks) + properties.jsonl."""
import importlib, json, os, sys
ROOT = os.path.dirname(os.path.dirname(os.path.abspath(__file__)))
sys.path.insert(0, os.path.join(ROOT, "tools"))
ids = [json.loads(l)["id"] for l in open(os.path.join(ROOT, "properties.jsonl"))]
checks, na = [], []
for cid in ids:
    p = os.path.join(ROOT, "tools", "props", cid.lower() + ".py")
    if not os.path.exists(p):
        na.append({"property_id": cid, "reason": "check not built yet in this round (planned in DESIGN.md section 6); nothing is claimed for it"})
        continue
    m = importlib.import_module("props." + cid.lower())
    if getattr(m, "NOT_CLAIMED", None):
        na.append({"property_id": cid, "reason": m.NOT_CLAIMED})
        continue
    checks.append({
        "property_id": cid,
        "quick_cmd": f"/venv/bin/python tools/check.py {cid} --tier quick",
        "thorough_cmd": f"/venv/bin/python tools/check.py {cid} --tier thorough",
        "evidence_file": f"/verif/evidence/{cid}.json",
        "replay_cmd_template": f"/venv/bin/python tools/check.py {cid} --replay {{path}}",
        "engine": "coq",
        "level_claimed": {"category": m.LEVEL, "text": m.LEVEL_TEXT, "design_ref": f"DESIGN.md section 6, {cid}"},
        "level_note": m.LEVEL_NOTE,
        "technique": m.TECHNIQUE,
    })
man = {
    "version": 1,
    "setup_cmd": "/venv/bin/python tools/check.py --setup",
    "hooks": {"guard": "PYMWP_VERIF", "enable": "no source hooks: checks import /repo directly (PYTHONPATH=/repo) and observe by wrapping methods from the harness process",
              "baseline_off_cmd": "cd /repo && /venv/bin/python -m pytest -q -p no:cacheprovider", "source_commits": [], "add_only": True},
    "engines": [{"name": "coq", "path": "/verif/coq", "serves_properties": [c["property_id"] for c in checks],
                 "kind_free_text": "Coq 8.16.1 development (generated tables + hand-written executable model + theorems) with Python correspondence/search harness in /verif/tools"}],
    "checks": checks,
    "not_applicable": na,
    "notes": "Every check regenerates coq/gen from /repo's working tree, rebuilds the property's Coq dependency cone, checks Print Assumptions, runs model-vs-code correspondence and an oracle search. See DESIGN.md.",
}
json.dump(man, open(os.path.join(ROOT, "MANIFEST.json"), "w"), indent=1)
print("checks:", [c["property_id"] for c in checks], "na:", len(na))
