"""Unit-level correspondence streams shared by the analysis properties: small library functions every
analysis result depends on (Polynomial.equal / eval / choice_scalar, Relation.fixpoint on chain- and
rotation-shaped loop bodies), compared with the Coq model inside Coq."""
import itertools
import vlib
import polylib as PL

POLY_HEADER = ("From Coq Require Import List Bool.\nFrom PM Require Import Semiring Poly.\nImport ListNotations.\n"
               "Definition chk (c : poly * poly * bool * list (list delta) * bool) : bool :=\n"
               "  let '(p, q, e, ev, si) := c in Bool.eqb (poly_eqb p q) e && list_eqb (list_eqb delta_eqb) (peval p []) ev && Bool.eqb (some_infty p) si.\n"
               "Fixpoint bad (n : nat) (l : list (poly * poly * bool * list (list delta) * bool)) : list nat :=\n"
               "  match l with [] => [] | c :: t => if chk c then bad (S n) t else n :: bad (S n) t end.\n")


def poly_aux(ctx, n):
    """Polynomial.equal (incl. strict-prefix pairs and permuted pairs), eval(), some_infty"""
    vlib.import_pymwp()
    rng = ctx.rng
    cases, mism = [], []
    for i in range(n):
        ns = rng.choice([1, 2, 3])
        p = PL.gen_reachable(rng, rng.choice([1, 2, 3]), ns)
        kind = rng.random()
        pd = PL.to_data(p)
        if kind < 0.3:
            qd = list(pd)
        elif kind < 0.55 and len(pd) >= 1:     # q = p with monomials appended / p a strict prefix of q
            extra = PL.to_data(PL.gen_reachable(rng, 1, ns))
            qd = pd + [m for m in extra if m not in pd][: rng.choice([1, 2])]
        elif kind < 0.7 and len(pd) >= 2:      # q = strict prefix of p
            qd = pd[: rng.randrange(1, len(pd))]
        elif kind < 0.8 and len(pd) >= 2:
            qd = list(reversed(pd))
        else:
            qd = PL.to_data(PL.gen_reachable(rng, rng.choice([1, 2]), ns))
        a, b = PL.from_data(pd, raw=True), PL.from_data(qd, raw=True)
        try:
            e = bool(a == b)
            ev = [list(t) for t in a.eval()]
            si = bool(a.some_infty)
        except Exception as ex:
            mism.append(f"stream poly-aux: real code raised {vlib.exc_sig(ex)} on p={pd} q={qd}")
            continue
        cases.append((pd, qd, e, ev, si))
    if not ctx.coq_ok:
        return ["model not built: poly-aux correspondence not run"], len(cases)
    lits = ["(%s, %s, %s, %s, %s)" % (PL.cq_poly(p), PL.cq_poly(q), vlib.cq_bool(e),
                                      vlib.cq_list([vlib.cq_list(["(%d, %d)" % tuple(d) for d in t]) for t in ev]), vlib.cq_bool(si))
            for p, q, e, ev, si in cases]
    ok, out = vlib.coq_eval(f"unit_poly_aux_{ctx.cid}", POLY_HEADER + "Definition cases : list (poly * poly * bool * list (list delta) * bool) := " + vlib.cq_list(lits) + ".\nEval vm_compute in bad 0 cases.\n")
    vals = vlib.parse_eval_results(out)
    if not ok or not vals:
        mism.append("stream poly-aux: coqc failed: " + out[-300:])
    elif vals[0] != "[]":
        idx = [int(x) for x in vals[0].strip("[]").split(";") if x.strip()]
        p, q, e, ev, si = cases[idx[0]]
        mism.append(f"stream poly-aux: Polynomial.equal/eval/some_infty differ from the model on {len(idx)} cases; first: p={p} q={q} equal={e}")
    return mism, len(cases)


REL_HEADER = ("From Coq Require Import String List Bool Arith.\nFrom PM Require Import Semiring Poly Rel.\nImport ListNotations.\n"
              "Open Scope string_scope.\nOpen Scope list_scope.\n"
              "Definition leaf (vs : list string) (x : string) (vec : list poly) : rel := match replace_column (rel_identity vs) vec x with Some r => r | None => rel_empty end.\n"
              "Definition body (l : list (list string * string * list poly)) : rel := fold_left (fun acc '(vs, x, vec) => rel_comp acc (leaf vs x vec)) l rel_empty.\n"
              "Definition rel_eqb (a b : rel) : bool := list_eqb String.eqb (rvars a) (rvars b) && list_eqb (list_eqb poly_eqb) (rmat a) (rmat b).\n"
              "Definition chk (c : list (list string * string * list poly) * rel) : bool := match rel_fixpoint 200 (body (fst c)) with Some f => rel_eqb f (snd c) | None => false end.\n"
              "Fixpoint bad (n : nat) (l : list (list (list string * string * list poly) * rel)) : list nat := match l with [] => [] | c :: t => if chk c then bad (S n) t else n :: bad (S n) t end.\n")


def chain_body(rng):
    """a loop body that closes a dependency chain / rotation of 3-6 variables, backwards or forwards,
    with copies, one or two binary operations and optional unconditional (copy) alternatives"""
    k = rng.choice([3, 4, 4, 5, 6])
    vs = ["c%d" % i for i in range(k)]
    order = list(range(k))
    shape = rng.choice(["rotate", "backward", "forward", "random"])
    stmts = []
    site = 0
    if shape == "rotate":      # t = c_{k-1}; c_{k-1} = c_{k-2}; ...; c_0 = t op t
        seq = [(vs[i], vs[i - 1]) for i in range(k - 1, 0, -1)]
        seq = [("t", vs[k - 1])] + seq + [(vs[0], "t")]
    elif shape == "backward":  # d reads old c, c reads old b, ...
        seq = [(vs[i], vs[i - 1]) for i in range(k - 1, 0, -1)]
    elif shape == "forward":
        seq = [(vs[i], vs[i - 1]) for i in range(1, k)]
    else:
        seq = [(rng.choice(vs), rng.choice(vs)) for _ in range(k)]
    heavy = set(rng.sample(range(len(seq)), rng.choice([1, 1, 2])))
    for n, (x, y) in enumerate(seq):
        if x == y:
            continue
        if n in heavy:
            tr = rng.choice(PL.LEAVES)
            z = rng.choice([y] + vs)
            names = list(dict.fromkeys([x, y, z]))
            cells = []
            if x not in (y, z):
                cells.append([("o", [])])
            if y == z:
                cells.append([(s, [(c, site)]) for c, s in enumerate(rng.choice([("w", "w", "w"), ("p", "p", "w")]))])
            else:
                cells.append([(s, [(c, site)]) for c, s in enumerate(("m", "p", "w"))])
                cells.append([(s, [(c, site)]) for c, s in enumerate(("p", "m", "w"))])
            site += 1
            stmts.append((names, x, cells))
        else:
            stmts.append(([x, y], x, [[("o", [])], [("m", [])]]))
    return stmts


def rel_chain_fix(ctx, n, failing=None, cid="C10"):
    """Relation.fixpoint of chain / rotation bodies: structural comparison with the model + scalar closure oracle"""
    vlib.import_pymwp()
    from pymwp import Relation
    rng = ctx.rng
    cases, mism = [], []
    for i in range(n):
        stmts = chain_body(rng)
        try:
            r = Relation()
            for vs_, x, vec in stmts:
                r = r * Relation.identity(list(vs_)).replace_column([PL.from_data(p) for p in vec], x)
            body = {"vars": list(r.variables), "matrix": [[PL.to_data(p) for p in row] for row in r.matrix]}
            f = vlib.with_timeout(lambda: r.fixpoint(), 30)
            fd = {"vars": list(f.variables), "matrix": [[PL.to_data(p) for p in row] for row in f.matrix]}
        except Exception as ex:
            mism.append(f"stream chain-fixpoint: real code raised {vlib.exc_sig(ex)} on {stmts}")
            continue
        cases.append((stmts, fd))
        if failing is not None:
            V = body["vars"]
            sites = PL.max_index(*[p for row in body["matrix"] for p in row])
            if sites <= 4:
                for c in PL.all_choices(sites):
                    A = {(x, y): PL.smax(PL.poly_terms(body["matrix"][V.index(x)][V.index(y)], c)) for x in V for y in V}
                    if any(v == "i" for v in A.values()):
                        continue
                    cur = {(x, y): ("m" if x == y else "o") for x in V for y in V}
                    while True:
                        nxt = {(x, y): PL.smax([("m" if x == y else "o")] + [PL.sprod(cur[(x, z)], A[(z, y)]) for z in V]) for x in V for y in V}
                        if nxt == cur:
                            break
                        cur = nxt
                    R = {(x, y): PL.smax(PL.poly_terms(fd["matrix"][fd["vars"].index(x)][fd["vars"].index(y)], c)) for x in V for y in V}
                    if R != cur:
                        bad = [p for p in cur if cur[p] != R[p]][0]
                        failing.append({"what": f"closure: Relation.fixpoint of a loop body is not the reflexive-transitive closure at choice {list(c)}, entry {bad}: {R[bad]} vs {cur[bad]}",
                                        "sig": [cid, "closure"], "input": {"body": stmts, "choice": list(c)}, "expected": cur[bad], "observed": R[bad]})
                        break
    if not ctx.coq_ok:
        return mism + ["model not built: chain-fixpoint correspondence not run"], len(cases)
    import e2e
    jobs = []
    shards = [cases[i:i + 60] for i in range(0, len(cases), 60)]
    for si, sh in enumerate(shards):
        lits = []
        for stmts, fd in sh:
            sl = vlib.cq_list(["(%s, %s, %s)" % (vlib.cq_list([vlib.cq_str(v) for v in vs_]), vlib.cq_str(x), vlib.cq_list([PL.cq_poly(p) for p in vec])) for vs_, x, vec in stmts])
            rows = vlib.cq_list([vlib.cq_list([PL.cq_poly(p) for p in row]) for row in fd["matrix"]])
            lits.append("(%s, Rel %s %s)" % (sl, vlib.cq_list([vlib.cq_str(v) for v in fd["vars"]]), rows))
        jobs.append((f"unit_chain_{ctx.cid}_{si}", REL_HEADER + "Definition cases : list (list (list string * string * list poly) * rel) := " + vlib.cq_list(lits) + ".\nEval vm_compute in bad 0 cases.\n"))
    outs = vlib.coq_eval_many(jobs, timeout=900)
    for si, sh in enumerate(shards):
        ok, out = outs[f"unit_chain_{ctx.cid}_{si}"]
        vals = vlib.parse_eval_results(out)
        if not ok or not vals:
            mism.append(f"stream chain-fixpoint shard {si}: coqc failed: " + out[-300:])
        elif vals[0] != "[]":
            idx = [int(x) for x in vals[0].strip("[]").split(";") if x.strip()]
            mism.append(f"stream chain-fixpoint shard {si}: Relation.fixpoint differs from the model on {len(idx)} loop bodies; first: {sh[idx[0]][0]}")
    return mism, len(cases)


def choice_scalar_check(ctx, n, failing, cid):
    """Polynomial.choice_scalar (what apply_choice reads every cell with) against the semiring maximum of the scalars of the
    monomials matching the choice, on reachable polynomials AND on raw ones mixing every pair of coefficients under one choice
    (w together with p, m with w, ... : the order of the coefficients is o < m < w < p < i, not alphabetical)."""
    vlib.import_pymwp()
    rng = ctx.rng
    nev = 0
    for i in range(n):
        ns = rng.choice([1, 2, 3])
        if i % 2:
            data = PL.to_data(PL.gen_reachable(rng, rng.choice([1, 2, 3]), ns))
        else:
            k = rng.choice([2, 2, 3, 4])
            data = []
            for _ in range(k):
                ds = sorted({(rng.randrange(3), j) for j in range(ns) if rng.random() < 0.6}, key=lambda d: d[1])
                data.append((rng.choice("mwpi" if rng.random() < 0.9 else "o"), [list(d) for d in ds]))
        try:
            p = PL.from_data(data, raw=True)
        except Exception:
            continue
        for c in PL.all_choices(ns):
            nev += 1
            want = PL.smax(PL.poly_terms(data, c)) if PL.poly_terms(data, c) else None
            try:
                got = p.choice_scalar(*c)
            except Exception as e:
                got = "raise:" + str(vlib.exc_sig(e))
            if got != want:
                if not any(f["sig"] == [cid, "choice-scalar"] for f in failing):
                    failing.append({"what": f"choice-scalar: Polynomial.choice_scalar{tuple(c)} = {got!r}, the largest coefficient among the matching monomials is {want!r}",
                                    "sig": [cid, "choice-scalar"], "input": {"poly": data, "choice": list(c)}, "expected": want, "observed": got})
                return nev
    return nev


def replay_unit(inp, cid):
    """re-evaluate a failing input reported by one of the unit streams above; None = it no longer fails (or is not one of ours)"""
    vlib.import_pymwp()
    if "poly" in inp and "choice" in inp:
        data = [(s_, [tuple(d) for d in ds]) for s_, ds in inp["poly"]]
        p = PL.from_data(data, raw=True)
        terms = PL.poly_terms(data, inp["choice"])
        want = PL.smax(terms) if terms else None
        got = p.choice_scalar(*inp["choice"])
        return None if got == want else {"what": "choice-scalar", "sig": [cid, "choice-scalar"], "input": inp, "expected": want, "observed": got}
    if "body" in inp and "choice" in inp:
        from pymwp import Relation
        stmts = [(list(vs_), x, [[(s_, [tuple(d) for d in ds]) for s_, ds in cell] for cell in vec]) for vs_, x, vec in inp["body"]]
        r = Relation()
        for vs_, x, vec in stmts:
            r = r * Relation.identity(list(vs_)).replace_column([PL.from_data(p) for p in vec], x)
        V = list(r.variables)
        body = [[PL.to_data(p) for p in row] for row in r.matrix]
        f = vlib.with_timeout(lambda: r.fixpoint(), 30)
        fm = [[PL.to_data(p) for p in row] for row in f.matrix]
        fv = list(f.variables)
        c = tuple(inp["choice"])
        A = {(x, y): PL.smax(PL.poly_terms(body[V.index(x)][V.index(y)], c)) for x in V for y in V}
        cur = {(x, y): ("m" if x == y else "o") for x in V for y in V}
        while True:
            nxt = {(x, y): PL.smax([("m" if x == y else "o")] + [PL.sprod(cur[(x, z)], A[(z, y)]) for z in V]) for x in V for y in V}
            if nxt == cur:
                break
            cur = nxt
        R = {(x, y): PL.smax(PL.poly_terms(fm[fv.index(x)][fv.index(y)], c)) for x in V for y in V}
        return None if R == cur else {"what": "closure: Relation.fixpoint is not the closure", "sig": [cid, "closure"], "input": inp}
    return None
