#!/bin/bash
# Runs every registered thorough check once and prints one line per property.
cd "$(dirname "$0")/.."
/venv/bin/python tools/check.py --setup > /dev/null 2>&1
for c in ${1:-C01 C02 C03 C04 C05 C06 C07 C08 C09 C10 C11 C12 C13 C14 C15 C16 C17 C18 C19 C20}; do
  out=$(/venv/bin/python tools/check.py $c --tier thorough 2>&1); rc=$?
  line=$(echo "$out" | grep -E "^$c: theorems" | tail -1)
  if [ $rc -ne 0 ] || echo "$out" | grep -q VIOLATION; then
    echo "ALARM $c rc=$rc :: $line"; echo "$out" | grep -E "failing input|BROKEN|VIOLATION" | head -4 | cut -c1-500
  else
    echo "ok $line"
  fi
done
